/* rt.c -- globals of the runtime + native replay implementation of nondet_*. */
#include "rt.h"

int __exc_active = 0;
void *__exc_obj = 0;
int __exc_ti = 0;
int __exc_caught_depth = 0;
u64 __exc_throw_count = 0;
struct __exc_slot_t __exc_slot_obj;
u64 __verif_alloca_max = 0;
#ifdef __CPROVER__
u8 nd_val_u8; u16 nd_val_u16; u32 nd_val_u32; u64 nd_val_u64; _Bool nd_val_bool;
#endif

/* operator new / delete (allocation failure is outside every claim: non-null) */
u8 *_Znwm(u64 n) { return __verif_new(n); }
u8 *_Znam(u64 n) { return __verif_new(n); }
void _ZdlPv(u8 *p) { if (p) free(p); }
void _ZdaPv(u8 *p) { if (p) free(p); }
void _ZdlPvm(u8 *p, u64 n) { (void)n; if (p) free(p); }

#ifndef VERIF_FOOTPRINT   /* with --footprint the generated unit defines them */
void __fp_store(void *p) { (void)p; }
void __fp_load(void *p) { (void)p; }
#endif

void __cxa_deleted_virtual(void) { __verif_terminate(); }

#ifndef __CPROVER__
/* ------------------------------------------------------------------ native replay */
/* link-time stand-ins for ABI objects that generated C only takes the address of
 * (not for native C++ builds, which get the real ones from libsupc++) */
#ifdef VERIF_C_NATIVE
char _ZTVN10__cxxabiv117__class_type_infoE[128], _ZTVN10__cxxabiv120__si_class_type_infoE[128],
     _ZTVN10__cxxabiv121__vmi_class_type_infoE[128], _ZTVN10__cxxabiv119__pointer_type_infoE[128],
     _ZTVN10__cxxabiv123__fundamental_type_infoE[128], _ZTIv[16], _ZTIi[16], _ZTIPKc[32], _ZTIc[16];
#endif
int __rt_failed = 0;
_Bool __verif_native(void) { return 1; }
void __verif_observe(u64 v) { printf("OBS %llu\n", v); }
/* the verif API as plain functions, for natively compiled C++ harness builds */
void __verif_assume(_Bool c) { __CPROVER_assume(c); }
void __verif_assert(_Bool c, const char *msg) { __CPROVER_assert(c, msg); }
static FILE *__rt_in = 0;
static int __rt_random = 0;
static u64 __rt_seed = 88172645463325252ULL;

void __rt_assert_fail(const char *msg) {
  __rt_failed++;
  printf("ASSERTION-FAILED: %s\n", msg);
  fflush(stdout);
}
void __rt_assume_fail(void) {
  printf("ASSUMPTION-NOT-MET\n");
  fflush(stdout);
  exit(77);
}
static u64 __rt_next(void) {
  if (!__rt_in && !__rt_random) {
    const char *p = getenv("VERIF_REPLAY");
    if (p) { __rt_in = fopen(p, "r"); if (!__rt_in) { perror(p); exit(2); } }
    else { __rt_random = 1; const char *s = getenv("VERIF_SEED"); if (s) __rt_seed ^= strtoull(s, 0, 10) * 0x9E3779B97F4A7C15ULL; }
  }
  if (__rt_in) {
    unsigned long long v = 0;
    if (fscanf(__rt_in, "%llu", &v) != 1) return 0;
    return v;
  }
  __rt_seed ^= __rt_seed << 13; __rt_seed ^= __rt_seed >> 7; __rt_seed ^= __rt_seed << 17;
  return __rt_seed;
}
u8 nondet_u8(void) { return (u8)__rt_next(); }
u16 nondet_u16(void) { return (u16)__rt_next(); }
u32 nondet_u32(void) { return (u32)__rt_next(); }
u64 nondet_u64(void) { return (u64)__rt_next(); }
_Bool nondet_bool(void) { return (_Bool)(__rt_next() & 1); }
#endif
