/* rt.h -- C runtime for translation units produced by tools/ir2c.py.
 * Two meanings: under CBMC (__CPROVER__ defined) nondet_* are symbolic and
 * __CPROVER_assert/assume are the solver's; compiled natively (gcc/clang) the same
 * unit is a replay/differential binary: nondet_* read values from a replay file and
 * assertion failures are printed.                                                   */
#ifndef VERIF_RT_H
#define VERIF_RT_H
#include <stddef.h>

typedef unsigned char u8;
typedef unsigned short u16;
typedef unsigned int u32;
typedef unsigned long long u64;
typedef signed char i8;
typedef short i16;
typedef int i32;
typedef long long i64;

#ifndef __CPROVER__
#include <stdio.h>
#include <stdlib.h>
#include <string.h>
extern int __rt_failed;
void __rt_assert_fail(const char *msg);
void __rt_assume_fail(void);
#define __CPROVER_assert(c, msg) do { if (!(c)) __rt_assert_fail(msg); } while (0)
#define __CPROVER_assume(c) do { if (!(c)) __rt_assume_fail(); } while (0)
#endif

/* ---- nondeterministic inputs (symbolic under CBMC, replay values natively).
 * Under CBMC each value passes through a local named nd_val_<type>, so that the values can be read
 * back, in call order, from the counterexample trace (tools/vcheck.py extract_nondet). */
#ifdef __CPROVER__
u8 __VERIFIER_nondet_u8(void); u16 __VERIFIER_nondet_u16(void); u32 __VERIFIER_nondet_u32(void);
u64 __VERIFIER_nondet_u64(void); _Bool __VERIFIER_nondet_bool(void);
extern u8 nd_val_u8; extern u16 nd_val_u16; extern u32 nd_val_u32; extern u64 nd_val_u64; extern _Bool nd_val_bool;
static inline u8 nondet_u8(void) { nd_val_u8 = __VERIFIER_nondet_u8(); return nd_val_u8; }
static inline u16 nondet_u16(void) { nd_val_u16 = __VERIFIER_nondet_u16(); return nd_val_u16; }
static inline u32 nondet_u32(void) { nd_val_u32 = __VERIFIER_nondet_u32(); return nd_val_u32; }
static inline u64 nondet_u64(void) { nd_val_u64 = __VERIFIER_nondet_u64(); return nd_val_u64; }
static inline _Bool nondet_bool(void) { nd_val_bool = __VERIFIER_nondet_bool(); return nd_val_bool; }
#else
u8 nondet_u8(void);
u16 nondet_u16(void);
u32 nondet_u32(void);
u64 nondet_u64(void);
_Bool nondet_bool(void);
#endif

#ifdef __CPROVER__
static inline _Bool __verif_native(void) { return 0; }
static inline void __verif_observe(u64 v) { (void)v; }
#else
_Bool __verif_native(void);
void __verif_observe(u64 v);
#endif

/* ---- exceptions: one exception in flight */
extern int __exc_active;      /* 1 while unwinding */
extern void *__exc_obj;       /* thrown object */
extern int __exc_ti;          /* translator-assigned id of the thrown type_info */
extern int __exc_caught_depth;
extern u64 __exc_throw_count;

void *malloc(size_t);
/* one statically allocated, pointer-typed exception slot: c-dns exception objects are {vptr, const char*};
 * a fresh malloc per throw site made CBMC merge every object's cells at every join (measured: 300k steps) */
struct __exc_slot_t { void *p[8]; };
extern struct __exc_slot_t __exc_slot_obj;
static inline void *__exc_alloc(u64 n) {
  __CPROVER_assert(n <= sizeof(struct __exc_slot_t), "rt: exception object fits the model slot");
  __CPROVER_assert(__exc_caught_depth == 0, "rt: no exception is being handled while another one is allocated (single-slot model)");
  return (void *)&__exc_slot_obj;
}
static inline void __exc_throw(void *obj, int ti) {
  __exc_active = 1; __exc_obj = obj; __exc_ti = ti; __exc_throw_count++;
}
static inline void *__exc_begin_catch(void) { __exc_active = 0; __exc_caught_depth++; return __exc_obj; }
static inline void __exc_end_catch(void) { __exc_caught_depth--; }

static inline void __verif_unreachable(void) {
  __CPROVER_assert(0, "rt: IR 'unreachable' reached");
  __CPROVER_assume(0);
}
static inline void __verif_terminate(void) {
  __CPROVER_assert(0, "rt: std::terminate / trap reached");
  __CPROVER_assume(0);
}

/* relational comparison of two pointers (same object in the source): decided on offsets, so that loop
 * conditions like 'start + 8 <= end' constant-fold; no detour through integer addresses */
#ifdef __CPROVER__
#define __PCMP(a, op, b) (__CPROVER_POINTER_OBJECT((const void*)(a)) == __CPROVER_POINTER_OBJECT((const void*)(b)) \
    ? ((long long)__CPROVER_POINTER_OFFSET((const void*)(a)) op (long long)__CPROVER_POINTER_OFFSET((const void*)(b))) \
    : ((u64)(a) op (u64)(b)))
#else
#define __PCMP(a, op, b) ((u64)(a) op (u64)(b))
#endif

/* ---- memory */
#ifdef __CPROVER__
void free(void *);
#endif
extern u64 __verif_alloca_max;   /* largest variable-size stack request seen (C14) */
static inline u8 *__verif_alloca(u64 n) {
  if (n > __verif_alloca_max) __verif_alloca_max = n;
  u8 *p = (u8 *)malloc(n ? n : 1);
  __CPROVER_assume(p != 0);
  return p;
}
static inline u8 *__verif_new(u64 n) {
  u8 *p = (u8 *)malloc(n ? n : 1);
  __CPROVER_assume(p != 0);
  return p;
}
static inline void __v_memcpy(u8 *d, const u8 *s, u64 n) {
  for (u64 i = 0; i < n; i++) d[i] = s[i];
}
static inline void __v_memmove(u8 *d, const u8 *s, u64 n) {
  if ((u64)d <= (u64)s) { for (u64 i = 0; i < n; i++) d[i] = s[i]; }
  else { for (u64 i = n; i > 0; i--) d[i - 1] = s[i - 1]; }
}
static inline void __v_memset(u8 *d, u8 c, u64 n) {
  for (u64 i = 0; i < n; i++) d[i] = c;
}

/* constant-length variants: the checker's built-in models (no loop) */
void *memcpy(void *, const void *, size_t);
void *memmove(void *, const void *, size_t);
void *memset(void *, int, size_t);
int toupper(int);
#define __v_memcpy_c(d, s, n) ((void)memcpy((d), (s), (n)))
#define __v_memmove_c(d, s, n) ((void)memmove((d), (s), (n)))
#define __v_memset_c(d, c, n) ((void)memset((d), (c), (n)))

/* ---- SSE4.2 CRC-32C (Castagnoli, reflected polynomial 0x82F63B78), bit-exact */
#ifdef VERIF_EXACT_CRC
#define __CRC_STEP(c) ((c) = ((c) >> 1) ^ (0x82F63B78u & (0u - ((c) & 1u))))
static inline u32 __crc32c_byte(u32 crc, u8 b) {
  crc ^= b;
  __CRC_STEP(crc); __CRC_STEP(crc); __CRC_STEP(crc); __CRC_STEP(crc);
  __CRC_STEP(crc); __CRC_STEP(crc); __CRC_STEP(crc); __CRC_STEP(crc);
  return crc;
}
static inline u32 __crc32c_8(u32 crc, u8 v) { return __crc32c_byte(crc, v); }
static inline u32 __crc32c_16(u32 crc, u16 v) {
  crc = __crc32c_byte(crc, (u8)v); return __crc32c_byte(crc, (u8)(v >> 8));
}
static inline u32 __crc32c_32(u32 crc, u32 v) {
  crc = __crc32c_byte(crc, (u8)v); crc = __crc32c_byte(crc, (u8)(v >> 8));
  crc = __crc32c_byte(crc, (u8)(v >> 16)); return __crc32c_byte(crc, (u8)(v >> 24));
}
static inline u64 __crc32c_64(u64 crc, u64 v) {
  u32 c = __crc32c_32((u32)crc, (u32)v);
  return (u64)__crc32c_32(c, (u32)(v >> 32));
}

#else
/* default: the crc32 intrinsics as a cheap deterministic mixing function that, like CRC-32C, is injective in the
 * data operand for a fixed accumulator (XOR-heavy exact CRC makes SAT instances needlessly hard; what the table
 * properties depend on is WHICH bytes are hashed, not the polynomial).  -DVERIF_EXACT_CRC selects the exact one. */
static inline u32 __mix32(u32 crc, u32 v) { crc = (crc << 5) | (crc >> 27); return crc ^ v ^ 0x9E3779B9u; }
static inline u32 __crc32c_8(u32 crc, u8 v) { return __mix32(crc, (u32)v | 0x100u); }
static inline u32 __crc32c_16(u32 crc, u16 v) { return __mix32(crc, (u32)v | 0x20000u); }
static inline u32 __crc32c_32(u32 crc, u32 v) { return __mix32(__mix32(crc, v), 0x4u); }
static inline u64 __crc32c_64(u64 crc, u64 v) { return (u64)__mix32(__mix32(__mix32((u32)crc, (u32)v), (u32)(v >> 32)), 0x8u); }
#endif

/* ---- footprint monitor (C20): filled in by generated code when --footprint */
void __fp_store(void *p);
void __fp_load(void *p);

#endif
