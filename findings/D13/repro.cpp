#include "cdns.h"
#include <cstdio>
#include <fstream>
using namespace CDNS;
int main() {
    FilePreamble fp; fp.m_private_version = boost::none;          // an application that writes no private version
    { CdnsExporter exp(fp, std::string("/tmp/w/d13/out"), CborOutputCompression::NO_COMPRESSION);
      GenericQueryResponse qr; qr.client_port = 53; exp.buffer_qr(qr); exp.write_block(); }
    std::ifstream in("/tmp/w/d13/out", std::ios::binary); CdnsReader r(in);
    printf("private version after read: %s\n", r.m_file_preamble.m_private_version ? "PRESENT (resurrected)" : "absent");
    return r.m_file_preamble.m_private_version ? 1 : 0;
}
