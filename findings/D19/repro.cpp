// D19: CdnsReader::read_file_header() passed plain (signed) char values to toupper(): for a file-type-id byte >= 0x80 the argument is
// negative and not EOF -- undefined behaviour by C11 7.4p1 (glibc happens to tolerate -128..-1, other C libraries index out of bounds).
// The program interposes toupper() to observe the argument the library passes for the input  83 63 e9 2d 44 4e 53 ...
// build: g++ -std=c++14 -msse4 -I/repo/src repro.cpp -L/repo/_build -lcdns -Wl,-rpath,/repo/_build -o repro
#include <sstream>
#include <cstdio>
#include <cstdlib>
#include "cdns.h"
static int bad_args = 0;
extern "C" int toupper(int c) { if (c != EOF && (c < 0 || c > 255)) bad_args++; return (c >= 'a' && c <= 'z') ? c - 32 : c; }
int main() {
    const unsigned char in[] = {0x83, 0x65, 0xe9, 0x2d, 0x44, 0x4e, 0x53};
    std::istringstream is(std::string((const char*)in, sizeof in));
    try { CDNS::CdnsReader r(is); } catch (std::exception& e) { std::printf("refused: %s\n", e.what()); }
    std::printf("toupper() calls with an argument outside unsigned char / EOF: %d\n", bad_args);
    return bad_args ? 1 : 0;
}
