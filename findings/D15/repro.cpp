#include "block.h"
#include <cstdio>
using namespace CDNS;
int main() {
    CdnsBlock* src = new CdnsBlock();
    ClassType a; a.type = 1; a.class_ = 1; ClassType b; b.type = 28; b.class_ = 1;
    src->add_classtype(a); src->add_classtype(b);
    CdnsBlock copy; copy = *src;
    delete src;
    index_t i = copy.add_classtype(b);      // de-duplicating add on the copy
    printf("index=%u size=%zu\n", i, copy.m_classtype.size());
    return (i == 1 && copy.m_classtype.size() == 2) ? 0 : 1;
}
