#include "cdns.h"
#include <cstdio>
#include <fstream>
#include <sstream>
using namespace CDNS;
int main() {
    FilePreamble fp;
    { CdnsExporter exp(fp, std::string("/tmp/w/d20/out1"), CborOutputCompression::NO_COMPRESSION);
      GenericQueryResponse qr; qr.client_port = 53;
      exp.buffer_qr(qr); 
      try { exp.rotate_output("/tmp/w/d20/out2", true); printf("rotate returned normally\n"); }   // string literal: boost::any holds const char*
      catch (std::exception& e) { printf("rotate threw: %s\n", e.what()); return 0; }
      exp.buffer_qr(qr); exp.write_block();
    }
    // out1 must be one complete C-DNS file: read it back
    std::ifstream in("/tmp/w/d20/out1", std::ios::binary); CdnsReader r(in); bool eof = false; int blocks = 0;
    try { while (true) { CdnsBlockRead b = r.read_block(eof); if (eof) break; blocks++; } printf("out1 blocks=%d\n", blocks); }
    catch (std::exception& e) { printf("out1 unreadable after %d blocks: %s\n", blocks, e.what()); return 1; }
    std::ifstream in2("/tmp/w/d20/out1", std::ios::binary); std::stringstream ss; ss << in2.rdbuf();
    printf("out1 size=%zu (a single document with 1 block would end after the first break)\n", ss.str().size());
    return 0;
}
