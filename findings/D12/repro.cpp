#include "cdns.h"
#include <cstdio>
#include <fstream>
using namespace CDNS;
int main() {
    FilePreamble fp;
    { CdnsExporter exp(fp, std::string("/tmp/w/d12/out"), CborOutputCompression::NO_COMPRESSION);
      GenericQueryResponse qr; qr.client_port = 53;
      exp.buffer_qr(qr, BlockStatistics());          // statistics present, no member set
      exp.write_block();
      GenericQueryResponse qr2; qr2.client_port = 54;
      exp.buffer_qr(qr2); exp.write_block();
    }
    std::ifstream in("/tmp/w/d12/out.cdns", std::ios::binary);
    std::ifstream in2("/tmp/w/d12/out", std::ios::binary);
    try { CdnsReader r(in2); bool eof = false; int blocks = 0; int qrs = 0;
          while (true) { CdnsBlockRead b = r.read_block(eof); if (eof) break; blocks++; bool end = false; while (true) { b.read_generic_qr(end); if (end) break; qrs++; } }
          printf("read back: blocks=%d qrs=%d (expected 2 / 2)\n", blocks, qrs); return (blocks == 2 && qrs == 2) ? 0 : 1; }
    catch (std::exception& e) { printf("file written by the exporter is unreadable: %s\n", e.what()); return 1; }
}
