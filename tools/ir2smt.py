#!/usr/bin/env python3
"""ir2smt.py -- path-wise symbolic execution of loop-free LLVM IR functions into integer terms with
explicit mod-2^w wrap (DESIGN.md 2.4).  Used for the 64-bit multiply/divide kernels of timestamp.cpp,
which bit-blasting does not decide.

Every iN value is a mathematical integer in [0, 2^N); wrapping operations are followed by mod 2^N;
signed views are ite(x >= 2^(N-1), x - 2^N, x); nsw/nuw flags and division by zero become UB predicates;
pointer arguments to structs are records of symbolic fields; __cxa_throw ends a path with outcome 'throw'.
"""
import sys, os
sys.path.insert(0, os.path.dirname(os.path.abspath(__file__)))
import ir2c


class Path:
    def __init__(self):
        self.cond = []      # list of terms (booleans) that hold on this path
        self.ub = []        # list of (description, term-that-must-hold-to-avoid-UB)
        self.outcome = None  # 'ret' | 'throw'
        self.ret = None
        self.stores = {}    # (argindex, fieldindex) -> term
        self.blocks = []


def const(n):
    return ('const', n)


def w2(n):
    return 1 << n


def signed(t, w):
    return ('ite', ('ge', t, const(w2(w - 1))), ('sub', t, const(w2(w))), t)


def wrap(t, w):
    return ('mod', t, const(w2(w)))


def sym_exec(module, fname, max_paths=64):
    f = module.funcs[fname]
    blocks = {(lab if lab is not None else f.entry_implicit): ins for lab, ins in f.blocks}
    entry = f.blocks[0][0] if f.blocks[0][0] is not None else f.entry_implicit
    argidx = {nm: i for i, (t, nm) in enumerate(f.params)}
    paths = []

    def val(v, env):
        if v.k == 'local':
            return env[v.d]
        if v.k == 'int':
            w = v.t.a
            return const(v.d & (w2(w) - 1))
        if v.k in ('null',):
            return ('ptr', 'null')
        if v.k == 'undef':
            return const(0)
        if v.k in ('global', 'cexpr'):
            return ('ptr', 'global')
        raise NotImplementedError('operand %r' % v.k)

    def run(label, prev, env, path, depth):
        if depth > 200:
            raise RuntimeError('loop in %s' % fname)
        if len(paths) > max_paths:
            raise RuntimeError('too many paths')
        path.blocks.append(label)
        for i in blocks[label]:
            op = i.op
            a = i.a
            if op == 'phi':
                for v, l in a:
                    if l == prev or (l not in blocks and prev == entry):
                        env[i.res] = val(v, env)
                        break
                else:
                    raise RuntimeError('phi')
            elif op in ir2c.BIN_OPS:
                w = i.t.a
                x, y = val(a[0], env), val(a[1], env)
                if op in ('add', 'sub', 'mul'):
                    raw = (op, x, y)
                    env[i.res] = wrap(raw, w)
                    if 'nuw' in i.flags:
                        path.ub.append(('%s nuw in %s' % (op, fname), ('and', ('ge', raw, const(0)), ('lt', raw, const(w2(w))))))
                    if 'nsw' in i.flags:
                        sraw = (op, signed(x, w), signed(y, w))
                        path.ub.append(('%s nsw in %s' % (op, fname), ('and', ('ge', sraw, const(-w2(w - 1))), ('lt', sraw, const(w2(w - 1))))))
                elif op in ('udiv', 'urem'):
                    path.ub.append(('%s by zero in %s' % (op, fname), ('ne', y, const(0))))
                    env[i.res] = ('div' if op == 'udiv' else 'mod', x, y)
                elif op in ('sdiv', 'srem'):
                    path.ub.append(('%s by zero in %s' % (op, fname), ('ne', y, const(0))))
                    path.ub.append(('%s overflow in %s' % (op, fname), ('not', ('and', ('eq', x, const(w2(w - 1))), ('eq', y, const(w2(w) - 1))))))
                    sx, sy = signed(x, w), signed(y, w)
                    q = ('tdiv', sx, sy)
                    env[i.res] = wrap(q if op == 'sdiv' else ('sub', sx, ('mul', q, sy)), w)
                elif op == 'and' and a[1].k == 'int' and (a[1].d + 1) & a[1].d == 0:
                    env[i.res] = ('mod', x, const(a[1].d + 1))
                elif op == 'xor' and i.t.a == 1:
                    env[i.res] = ('bxor', x, y)
                elif op in ('and', 'or') and i.t.a == 1:
                    env[i.res] = ('b' + op, x, y)
                elif op == 'shl' and a[1].k == 'int':
                    env[i.res] = wrap(('mul', x, const(1 << a[1].d)), w)
                elif op == 'lshr' and a[1].k == 'int':
                    env[i.res] = ('div', x, const(1 << a[1].d))
                else:
                    raise NotImplementedError('%s in %s' % (i.line, fname))
            elif op == 'icmp':
                pred, x0, y0 = a
                x, y = val(x0, env), val(y0, env)
                w = x0.t.a if x0.t.k == 'int' else 64
                if pred[0] == 's':
                    x, y = signed(x, w), signed(y, w)
                m = {'eq': 'eq', 'ne': 'ne', 'ult': 'lt', 'ule': 'le', 'ugt': 'gt', 'uge': 'ge', 'slt': 'lt', 'sle': 'le', 'sgt': 'gt', 'sge': 'ge'}[pred]
                env[i.res] = ('b2i', (m, x, y))
            elif op == 'select':
                env[i.res] = ('ite', ('ne', val(a[0], env), const(0)), val(a[1], env), val(a[2], env))
            elif op == 'cast':
                cop, v = a
                x = val(v, env)
                if cop == 'zext':
                    env[i.res] = x
                elif cop == 'trunc':
                    env[i.res] = wrap(x, i.t.a)
                elif cop == 'sext':
                    env[i.res] = wrap(signed(x, v.t.a), i.t.a)
                elif cop == 'bitcast':
                    env[i.res] = x
                else:
                    raise NotImplementedError(i.line)
            elif op == 'gep':
                bt, base, idx = a
                b = val(base, env)
                if b[0] == 'argptr' and len(idx) == 2 and idx[0].k == 'int' and idx[0].d == 0 and idx[1].k == 'int':
                    env[i.res] = ('field', b[1], idx[1].d)
                else:
                    env[i.res] = ('ptr', 'other')
            elif op == 'load':
                p = val(a[0], env)
                if p[0] == 'field':
                    key = (p[1], p[2])
                    env[i.res] = path.stores.get(key, ('var', 'a%d_f%d' % key))
                elif p[0] == 'argptr' and i.t.k == 'int':
                    key = (p[1], 0)
                    env[i.res] = path.stores.get(key, ('var', 'a%d_f0' % p[1]))
                else:
                    raise NotImplementedError('load from %r in %s' % (p, fname))
            elif op == 'store':
                p = val(a[1], env)
                if p[0] == 'field':
                    path.stores[(p[1], p[2])] = val(a[0], env)
                elif p[0] == 'argptr':
                    path.stores[(p[1], 0)] = val(a[0], env)
                elif p[0] == 'ptr':
                    pass   # exception object initialisation
                else:
                    raise NotImplementedError('store to %r' % (p,))
            elif op == 'call':
                callee = ir2c.strip_casts(a['callee'])
                name = callee.d if callee.k == 'global' else None
                if name == '__cxa_allocate_exception':
                    env[i.res] = ('ptr', 'exc')
                elif name == '__cxa_throw':
                    path.outcome = 'throw'
                    paths.append(path)
                    return
                elif name and name.startswith('llvm.'):
                    pass
                else:
                    raise NotImplementedError('call %s in %s' % (name, fname))
            elif op == 'br':
                run(a[0], label, env, path, depth + 1)
                return
            elif op == 'condbr':
                c = ('ne', val(a[0], env), const(0))
                for tgt, cc in ((a[1], c), (a[2], ('not', c))):
                    p2 = Path()
                    p2.cond = path.cond + [cc]
                    p2.ub = list(path.ub)
                    p2.stores = dict(path.stores)
                    p2.blocks = list(path.blocks)
                    run(tgt, label, dict(env), p2, depth + 1)
                return
            elif op == 'ret':
                path.outcome = 'ret'
                path.ret = val(a[0], env) if a[0] is not None else None
                paths.append(path)
                return
            elif op == 'unreachable':
                path.outcome = 'unreachable'
                paths.append(path)
                return
            else:
                raise NotImplementedError('%s in %s' % (i.line, fname))

    env = {}
    for t, nm in f.params:
        if t.k == 'ptr':
            env[nm] = ('argptr', argidx[nm])
        else:
            env[nm] = ('var', 'a%d' % argidx[nm])
    run(entry, None, env, Path(), 0)
    return paths


# ---- printing / evaluation ---------------------------------------------------------------------------
def smt(t):
    k = t[0]
    if k == 'const':
        return str(t[1]) if t[1] >= 0 else '(- %d)' % (-t[1])
    if k == 'var':
        return t[1]
    if k in ('add', 'sub', 'mul'):
        return '(%s %s %s)' % ({'add': '+', 'sub': '-', 'mul': '*'}[k], smt(t[1]), smt(t[2]))
    if k == 'mod':
        return '(mod %s %s)' % (smt(t[1]), smt(t[2]))
    if k == 'div':
        return '(div %s %s)' % (smt(t[1]), smt(t[2]))
    if k == 'tdiv':   # truncating signed division
        a, b = smt(t[1]), smt(t[2])
        return '(ite (>= %s 0) (ite (> %s 0) (div %s %s) (- (div %s (- %s)))) (ite (> %s 0) (- (div (- %s) %s)) (div (- %s) (- %s))))' % (a, b, a, b, a, b, b, a, b, a, b)
    if k == 'ite':
        return '(ite %s %s %s)' % (smt(t[1]), smt(t[2]), smt(t[3]))
    if k in ('eq', 'lt', 'le', 'gt', 'ge'):
        return '(%s %s %s)' % ({'eq': '=', 'lt': '<', 'le': '<=', 'gt': '>', 'ge': '>='}[k], smt(t[1]), smt(t[2]))
    if k == 'ne':
        return '(not (= %s %s))' % (smt(t[1]), smt(t[2]))
    if k == 'not':
        return '(not %s)' % smt(t[1])
    if k == 'and':
        return '(and %s %s)' % (smt(t[1]), smt(t[2]))
    if k == 'or':
        return '(or %s %s)' % (smt(t[1]), smt(t[2]))
    if k == 'b2i':
        return '(ite %s 1 0)' % smt(t[1])
    if k == 'bxor':
        return '(ite (= %s %s) 0 1)' % (smt(t[1]), smt(t[2]))
    if k == 'band':
        return '(ite (and (= %s 1) (= %s 1)) 1 0)' % (smt(t[1]), smt(t[2]))
    if k == 'bor':
        return '(ite (or (= %s 1) (= %s 1)) 1 0)' % (smt(t[1]), smt(t[2]))
    raise NotImplementedError(k)


def ev(t, env):
    k = t[0]
    if k == 'const':
        return t[1]
    if k == 'var':
        return env[t[1]]
    if k == 'add':
        return ev(t[1], env) + ev(t[2], env)
    if k == 'sub':
        return ev(t[1], env) - ev(t[2], env)
    if k == 'mul':
        return ev(t[1], env) * ev(t[2], env)
    if k == 'mod':
        b = ev(t[2], env)
        return ev(t[1], env) % b if b else 0
    if k == 'div':
        b = ev(t[2], env)
        return ev(t[1], env) // b if b else 0
    if k == 'tdiv':
        a, b = ev(t[1], env), ev(t[2], env)
        if b == 0:
            return 0
        q = abs(a) // abs(b)
        return q if (a >= 0) == (b > 0) else -q
    if k == 'ite':
        return ev(t[2], env) if ev(t[1], env) else ev(t[3], env)
    if k == 'eq':
        return ev(t[1], env) == ev(t[2], env)
    if k == 'ne':
        return ev(t[1], env) != ev(t[2], env)
    if k == 'lt':
        return ev(t[1], env) < ev(t[2], env)
    if k == 'le':
        return ev(t[1], env) <= ev(t[2], env)
    if k == 'gt':
        return ev(t[1], env) > ev(t[2], env)
    if k == 'ge':
        return ev(t[1], env) >= ev(t[2], env)
    if k == 'not':
        return not ev(t[1], env)
    if k == 'and':
        return ev(t[1], env) and ev(t[2], env)
    if k == 'or':
        return ev(t[1], env) or ev(t[2], env)
    if k == 'b2i':
        return 1 if ev(t[1], env) else 0
    if k == 'bxor':
        return ev(t[1], env) ^ ev(t[2], env)
    if k == 'band':
        return ev(t[1], env) & ev(t[2], env)
    if k == 'bor':
        return ev(t[1], env) | ev(t[2], env)
    raise NotImplementedError(k)


def free_vars(t, acc=None):
    acc = set() if acc is None else acc
    if t[0] == 'var':
        acc.add(t[1])
    else:
        for x in t[1:]:
            if isinstance(x, tuple):
                free_vars(x, acc)
    return acc


def conj(ts):
    if not ts:
        return ('eq', const(0), const(0))
    r = ts[0]
    for t in ts[1:]:
        r = ('and', r, t)
    return r


def load(path):
    return ir2c.parse_module(open(path).read())


if __name__ == '__main__':
    m = load(sys.argv[1])
    for p in sym_exec(m, sys.argv[2]):
        print(p.outcome, p.blocks)
        print('  cond', smt(conj(p.cond)))
        print('  ret', smt(p.ret) if p.ret else None)
        for k, v in p.stores.items():
            print('  store', k, smt(v))
        for d, u in p.ub:
            print('  ub', d, smt(u))
