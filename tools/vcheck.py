#!/usr/bin/env python3
"""vcheck.py -- run the solver-based check of one property (DESIGN.md 7).

    python3 tools/vcheck.py C06 --tier quick|thorough

Pipeline per run (everything regenerated from /repo's current working tree):
  harness TU (+ real c-dns sources, model std headers)  --clang++-14-->  LLVM IR
  --tools/ir2c.py-->  C  --cbmc (SAT)-->  verdict per obligation; SMT obligations go through
  tools/ir2smt.py --> z3 / cvc5.  Counterexamples are replayed on a native build of the same unit.
Exit 0: every obligation held (or matched a listed known finding); exit 1: VIOLATION lines;
exit 2: internal error (translator, model drift, tool crash) -- never a VIOLATION line.
"""
import sys, os, json, subprocess, time, hashlib, shutil, tempfile, re, argparse, concurrent.futures, resource, threading

VERIF = os.path.dirname(os.path.dirname(os.path.abspath(__file__)))
REPO = os.environ.get('VERIF_REPO', '/repo')
OUTDIR = os.environ.get('VERIF_OUT', VERIF)      # evidence/ and replays/ go here (seeded-change runs use a scratch dir)
sys.path.insert(0, os.path.join(VERIF, 'tools'))
sys.path.insert(0, VERIF)

CLANG = 'clang++-14'
CXXFLAGS = ['-std=c++14', '-msse4', '-nostdinc++', '-I' + os.path.join(VERIF, 'stubs'), '-I' + os.path.join(REPO, 'src'),
            '-I' + os.path.join(VERIF, 'harness'), '-fno-access-control', '-DCDNS_VERIF', '-fno-vectorize', '-fno-slp-vectorize',
            '-fno-unroll-loops', '-Wno-everything']
CBMC_BASE = ['--unwinding-assertions', '--drop-unused-functions', '--pointer-check', '--bounds-check',
             '--no-malloc-may-fail', '--object-bits', '10', '--sat-solver', 'cadical']
try:
    CBMC_VERSION = subprocess.run(['cbmc', '--version'], stdout=subprocess.PIPE).stdout.decode().strip()
except OSError:
    CBMC_VERSION = 'unknown'
REUSE_DIR = os.path.join(os.environ.get('TMPDIR', '/tmp'), 'verif_reuse_%d' % os.getuid())     # optional: nothing here is needed by a check
NCPU = int(os.environ.get('VERIF_JOBS', '12'))     # 12 solver processes at a time: 62 GB of RAM shared by memory-hungry SAT instances


class InternalError(Exception):
    pass


def sh(cmd, timeout=None, cwd=None, env=None, mem_gb=None):
    def lim():
        if mem_gb:
            b = int(mem_gb * (1 << 30))
            resource.setrlimit(resource.RLIMIT_AS, (b, b))
    t0 = time.time()
    try:
        p = subprocess.run(cmd, stdout=subprocess.PIPE, stderr=subprocess.PIPE, timeout=timeout, cwd=cwd, env=env,
                           preexec_fn=lim if mem_gb else None)
        ru = resource.getrusage(resource.RUSAGE_CHILDREN)
        return p.returncode, p.stdout.decode('utf-8', 'replace'), p.stderr.decode('utf-8', 'replace'), time.time() - t0
    except subprocess.TimeoutExpired as e:
        return -9, (e.stdout or b'').decode('utf-8', 'replace'), 'TIMEOUT', time.time() - t0


class Build:
    """compiles harness TUs to C (cached per (harness, defines, flags) inside one run)"""

    def __init__(self, scratch):
        self.scratch = scratch
        self.cache = {}
        self.lock = threading.Lock()
        self.keylocks = {}
        self.translations = []

    def unit(self, harness, defines=(), opt='-O1', ub=False, redirect=(), footprint=False, extra_src=(), vcall=()):
        key = (harness, tuple(defines), opt, ub, tuple(redirect), footprint, tuple(extra_src), tuple(vcall))
        # one builder per key: the other threads that need the same unit wait for it (two builders would rewrite the .c file
        # while a solver process of the first one is already reading it)
        with self.lock:
            if key in self.cache:
                return self.cache[key]
            klock = self.keylocks.setdefault(key, threading.Lock())
        with klock:
            with self.lock:
                if key in self.cache:
                    return self.cache[key]
            return self._build_unit(key, harness, defines, opt, ub, redirect, footprint, extra_src, vcall)

    def _build_unit(self, key, harness, defines, opt, ub, redirect, footprint, extra_src, vcall):
        h = hashlib.sha1(repr(key).encode()).hexdigest()[:12]
        base = os.path.join(self.scratch, os.path.basename(harness).replace('.cpp', '') + '_' + h)
        ll, c = base + '.ll', base + '.c'
        src = os.path.join(VERIF, 'harness', harness)
        cmd = [CLANG] + CXXFLAGS + ['-D' + d for d in defines]
        if opt == 'ub':
            # no UB-exploiting optimisation: -O0 then mem2reg/sroa/simplifycfg only
            cmd += ['-O0', '-Xclang', '-disable-O0-optnone']
        else:
            cmd += opt.split()
        cmd += ['-S', '-emit-llvm', src, '-o', ll]
        rc, out, err, dt = sh(cmd, timeout=300)
        if rc != 0:
            raise InternalError('clang failed for %s: %s' % (harness, err[-2000:]))
        if opt == 'ub':
            rc, out, err, dt = sh(['opt-14', '-S', '-passes=mem2reg,sroa,simplifycfg', ll, '-o', ll + '.opt'], timeout=300)
            if rc != 0:
                raise InternalError('opt failed: ' + err[-2000:])
            os.replace(ll + '.opt', ll)
        cmd = [sys.executable, os.path.join(VERIF, 'tools', 'ir2c.py'), ll, '-o', c]
        if ub:
            cmd.append('--ub')
        if footprint:
            cmd.append('--footprint')
        for r in redirect:
            cmd += ['--redirect', r]
        for r in vcall:
            cmd += ['--vcall', r]
        rc, out, err, dt = sh(cmd, timeout=600)
        if rc != 0:
            raise InternalError('ir2c failed for %s: %s' % (harness, err[-3000:]))
        res = {'c': c, 'll': ll, 'src': src, 'defines': list(defines), 'key': key}
        with self.lock:
            self.cache[key] = res
            self.translations.append(os.path.basename(c))
        return res

    def native_c(self, unit, entry):
        """gcc build of the generated C + runtime + main calling `entry` (replay / differential binary)"""
        noctor = entry.startswith('noctor:')
        entry = entry[7:] if noctor else entry
        exe = unit['c'][:-2] + '.' + entry + '.cexe'
        with self.lock:
            if os.path.exists(exe):
                return exe
        mainc = exe + '.main.c'
        with open(mainc, 'w') as f:
            f.write('#include "rt.h"\nvoid %s(void);\nint main(void){ %s(); if (__exc_active) printf("UNCAUGHT-EXCEPTION ti=%%d\\n", __exc_ti); printf("DONE failed=%%d\\n", __rt_failed); return __rt_failed ? 1 : 0; }\n' % ((entry if noctor else 'run_' + entry), (entry if noctor else 'run_' + entry)))
        rc, out, err, dt = sh(['gcc', '-O1', '-w', '-fwrapv', '-fno-strict-aliasing', '-DVERIF_C_NATIVE', '-DVERIF_FOOTPRINT' if unit['key'][5] else '-DVERIF_NO_FOOTPRINT', '-Wl,--unresolved-symbols=ignore-all', '-I' + os.path.join(VERIF, 'rt'), unit['c'], os.path.join(VERIF, 'rt', 'rt.c'), mainc, '-o', exe], timeout=600)
        if rc != 0:
            raise InternalError('gcc failed on generated C: ' + err[-3000:])
        return exe

    def native_cxx(self, unit, entry):
        """clang++ build of the *C++* harness itself (model headers), for translation validation of ir2c"""
        entry = entry[7:] if entry.startswith('noctor:') else entry
        exe = unit['c'][:-2] + '.' + entry + '.xexe'
        with self.lock:
            if os.path.exists(exe):
                return exe
        mainc = exe + '.main.cpp'
        with open(mainc, 'w') as f:
            f.write('#include <stdio.h>\nextern "C" void %s(void); extern "C" int __rt_failed;\nint main(){ try { %s(); } catch (...) { printf("UNCAUGHT-EXCEPTION\\n"); } printf("DONE failed=%%d\\n", __rt_failed); return __rt_failed ? 1 : 0; }\n' % (entry, entry))
        obj_rt = exe + '.rt.o'
        rc, out, err, dt = sh(['gcc', '-O1', '-w', '-c', '-I' + os.path.join(VERIF, 'rt'), os.path.join(VERIF, 'rt', 'rt.c'), '-o', obj_rt], timeout=120)
        if rc != 0:
            raise InternalError('gcc rt failed: ' + err[-2000:])
        obj_h = exe + '.h.o'
        cmd = [CLANG] + CXXFLAGS + ['-D' + d for d in unit['defines']] + ['-O1', '-fexceptions', '-c', unit['src'], '-o', obj_h]   # (redirect stubs are not applied here)
        rc, out, err, dt = sh(cmd, timeout=600)
        if rc != 0:
            raise InternalError('native C++ harness build failed: ' + err[-3000:])
        # environment models: the harness defines ext_<name>; route the harness object's references to <name> there
        # (only in this object: libc keeps its own write/close/... for stdio)
        exts = set(re.findall(r'^define [^@]*@ext_([A-Za-z0-9_]+)\(', open(unit['ll']).read(), re.M))
        if exts:
            args = []
            for n in sorted(exts):
                args += ['--redefine-sym', '%s=ext_%s' % (n, n)]
            rc, out, err, dt = sh(['objcopy'] + args + [obj_h], timeout=60)
            if rc != 0:
                raise InternalError('objcopy failed: ' + err[-1000:])
        rc, out, err, dt = sh([CLANG, '-std=c++14', '-O1', '-fexceptions', '-Wl,--unresolved-symbols=ignore-all', mainc, obj_h, obj_rt, '-nostdlib++', '-lsupc++', '-o', exe], timeout=300)
        if rc != 0:
            raise InternalError('native C++ harness link failed: ' + err[-3000:])
        return exe


FAIL_RE = re.compile(r'^\[(?P<id>[^\]]+)\] (?:line (?P<line>\d+) )?(?P<desc>.*): (?P<st>FAILURE|SUCCESS|UNKNOWN)$')


_loops_cache = {}


def loop_unwindset(cfile, entry, loops):
    """loops: {regex on loop id: bound}; loop ids are regenerated from the goto program on every run"""
    if not loops:
        return []
    key = (cfile, entry)
    if key not in _loops_cache:
        rc, out, err, dt = sh(['cbmc', cfile, os.path.join(VERIF, 'rt', 'rt.c'), '-I', os.path.join(VERIF, 'rt'), '--function', (entry[7:] if entry.startswith('noctor:') else 'run_' + entry),
                               '--drop-unused-functions', '--show-loops'], timeout=300)
        _loops_cache[key] = re.findall(r'^Loop (\S+):', out, re.M)
    res = []
    for lid in _loops_cache[key]:
        for pat, b in loops.items():
            if re.search(pat, lid):
                res.append('%s:%d' % (lid, b))
                break
    return res


def run_cbmc(cfile, entry, unwind, unwindset=(), timeout=900, mem_gb=12, extra=(), trace=False):
    if isinstance(unwindset, dict):
        unwindset = loop_unwindset(cfile, entry, unwindset)
    if entry.startswith('noctor:'):
        fn = entry[7:]
    else:
        fn = 'run_' + entry
    cmd = ['cbmc', cfile, os.path.join(VERIF, 'rt', 'rt.c'), '-I', os.path.join(VERIF, 'rt'), '--function', fn,
           '--unwind', str(unwind)] + CBMC_BASE + list(extra)
    if '--object-bits' in extra:                      # an obligation with more addressed objects overrides the default
        k = cmd.index('--object-bits')
        del cmd[k:k + 2]
    if unwindset:
        cmd += ['--unwindset', ','.join(unwindset)]
    if trace:
        cmd += ['--trace', '--json-ui']
    # identical query => identical verdict: the unit is regenerated from the working tree on every run; when the generated C, the runtime,
    # the CBMC version and every argument are byte-identical to a query already decided (the same obligation is part of several
    # properties), the recorded verdict is reused instead of solving the same formula again.  Only definite verdicts are recorded.
    ckey = None
    if not trace and os.environ.get('VERIF_NO_REUSE') != '1':
        h = hashlib.sha256()
        for fn_ in (cfile, os.path.join(VERIF, 'rt', 'rt.c'), os.path.join(VERIF, 'rt', 'rt.h')):
            h.update(open(fn_, 'rb').read()); h.update(b'\0')
        h.update(repr([a for a in cmd if a != cfile]).encode()); h.update(CBMC_VERSION.encode())
        ckey = os.path.join(REUSE_DIR, h.hexdigest() + '.json')
        try:
            if time.time() - os.path.getmtime(ckey) < 6 * 3600:
                c = json.load(open(ckey))
                c['res']['reused_identical_query'] = True
                return c['res'], c['out']
        except (OSError, ValueError, KeyError):
            pass
    rc, out, err, dt = sh(cmd, timeout=timeout, mem_gb=mem_gb)
    res = {'cmd': ' '.join(cmd), 'time_s': round(dt, 2), 'rc': rc}
    if rc == -9:
        res['status'] = 'timeout'
        return res, out
    if trace:
        return res, out
    res, out = classify_cbmc(res, out, err)
    if ckey and res['status'] in ('success', 'failed'):
        try:
            os.makedirs(REUSE_DIR, exist_ok=True)
            tmp = ckey + '.%d.tmp' % os.getpid()
            json.dump({'res': res, 'out': '\n'.join(l for l in out.splitlines() if FAIL_RE.match(l.strip()) or 'VERIFICATION' in l)}, open(tmp, 'w'))
            os.replace(tmp, ckey)
        except OSError:
            pass
    return res, out


def classify_cbmc(res, out, err):
    fails, total = [], 0
    for ln in out.splitlines():
        m = FAIL_RE.match(ln.strip())
        if m:
            total += 1
            if m.group('st') != 'SUCCESS':
                fails.append({'id': m.group('id'), 'line': m.group('line'), 'desc': m.group('desc')})
    res['properties'] = total
    # 'pointer relation' checks: forming/comparing a pointer past the end of an object (e.g. hash.h 'start + 8 <= end' on a
    # 4-byte object) is standard-level UB that no sanitizer confirms; reported separately, never as a violation
    res['informational'] = [f for f in fails if '.pointer_arithmetic.' in f['id']]
    fails = [f for f in fails if '.pointer_arithmetic.' not in f['id']]
    res['failed'] = fails
    if not fails and 'VERIFICATION FAILED' in out:
        out = out.replace('VERIFICATION FAILED', 'VERIFICATION SUCCESSFUL')
    if 'VERIFICATION SUCCESSFUL' in out:
        res['status'] = 'success'
    elif 'VERIFICATION FAILED' in out:
        res['status'] = 'failed'
    elif re.search(r'PARSING ERROR|CONVERSION ERROR|syntax error|failed to find symbol|invariant check failed|Usage error', out + err):
        res['status'] = 'error'
        res['tail'] = (out[-1500:] + err[-1500:])
    else:
        # no verdict and no front-end error: the solver process ran out of memory / was killed (rlimit)
        res['status'] = 'timeout'
        res['oom'] = True
    return res, out


def extract_nondet(trace_json):
    """ordered values returned by nondet_* in a CBMC json trace (both --stop-on-fail and all-properties layouts)"""
    try:
        data = json.loads(trace_json)
    except Exception:
        return None, None

    def from_trace(tr):
        vals = []
        for st in tr:
            if st.get('stepType') != 'assignment' or not re.fullmatch(r'nd_val_(u8|u16|u32|u64|bool)', st.get('lhs', '')):
                continue
            if not st.get('sourceLocation', {}).get('function', '').startswith('nondet_'):
                continue   # static initialisation of the nd_val_* globals
            v = st.get('value', {})
            if 'binary' in v:
                d = int(v['binary'], 2)
            else:
                d = v.get('data')
                if d in ('TRUE', 'true'):
                    d = 1
                elif d in ('FALSE', 'false'):
                    d = 0
                else:
                    d = int(re.sub(r'[^0-9-]', '', str(d)) or '0')
            vals.append(int(d) & ((1 << 64) - 1))
        return vals

    for item in data:
        if not isinstance(item, dict):
            continue
        if 'trace' in item and item.get('status', '').lower() in ('failed', 'failure'):
            return from_trace(item['trace']), item.get('description')
        for r in item.get('result', []) if isinstance(item.get('result'), list) else []:
            if r.get('status') == 'FAILURE' and 'trace' in r:
                return from_trace(r['trace']), r.get('description')
    return None, None


# ----------------------------------------------------------------------------- obligation runner
class Obl:
    """one obligation = one CBMC (or SMT) query + its witness twin"""

    def __init__(self, name, harness, entry, unwind=8, defines=(), unwindset=(), tiers=('quick', 'thorough'), timeout=900,
                 mem_gb=12, opt='-O1', ub=False, redirect=(), witness=True, desc='', bounds=None, functions=(), kind='cbmc',
                 extra=(), footprint=False, defines_thorough=None, unwind_thorough=None, smt=None, public_replay=None, vcall=()):
        self.__dict__.update(locals())
        del self.__dict__['self']


def run_obligation(build, ob, tier, replay_dir, prop):
    """returns result dict: status in holds / violated / inconclusive / vacuous / error"""
    defines = list(ob.defines_thorough if (tier == 'thorough' and ob.defines_thorough is not None) else ob.defines)
    unwind = ob.unwind_thorough if (tier == 'thorough' and ob.unwind_thorough) else ob.unwind
    r = {'name': ob.name, 'entry': ob.entry, 'harness': ob.harness, 'defines': defines, 'unwind': unwind, 'desc': ob.desc,
         'bounds': ob.bounds or {}, 'solver': 'cbmc 6.11 (cadical)'}
    t0 = time.time()
    try:
        unit = build.unit(ob.harness, defines, ob.opt, ob.ub, ob.redirect, ob.footprint, (), ob.vcall)
        if ob.footprint and '-DVERIF_FOOTPRINT' not in ob.extra:
            ob.extra = tuple(ob.extra) + ('-DVERIF_FOOTPRINT',)
        res, out = run_cbmc(unit['c'], ob.entry, unwind, ob.unwindset, ob.timeout, ob.mem_gb, ob.extra)
        r['cbmc'] = {k: res[k] for k in ('time_s', 'status') if k in res}
        r['cbmc']['reused'] = bool(res.get('reused_identical_query'))
        r['cbmc']['properties'] = res.get('properties', 0)
        if res.get('informational'):
            r['informational_pointer_arithmetic'] = sorted(set(f['desc'] + ' @' + f['id'].split('.')[0] for f in res['informational']))[:6]
        r['cmd'] = res['cmd'].replace(build.scratch, '$SCRATCH')
        queries = 1
        if res['status'] == 'timeout':
            r['status'] = 'inconclusive'; r['why'] = ('out of memory (limit %d GB)' % ob.mem_gb) if res.get('oom') else 'timeout %ss' % ob.timeout
        elif res['status'] == 'error':
            r['status'] = 'error'; r['why'] = res.get('tail', '')[-800:]
        elif res['status'] == 'failed':
            r['failed'] = res['failed']
            unw = [f for f in res['failed'] if 'unwinding assertion' in f['desc']]
            modelb = [f for f in res['failed'] if 'model-bound' in f['desc'] or f['desc'].startswith('rt:')]
            if unw:
                r['status'] = 'error'; r['why'] = 'unwinding assertion failed (bound too small): ' + unw[0]['id']
            elif modelb and len(modelb) == len(res['failed']):
                r['status'] = 'error'; r['why'] = 'model bound exceeded: ' + modelb[0]['desc']
            else:
                r['status'] = 'violated'
                # trace + replay
                res2, out2 = run_cbmc(unit['c'], ob.entry, unwind, ob.unwindset, ob.timeout, ob.mem_gb, list(ob.extra) + ['--stop-on-fail'], trace=True)
                queries += 1
                vals, desc = extract_nondet(out2)
                r['trace_values'] = vals
                r['trace_failed'] = desc
                if vals is not None:
                    os.makedirs(replay_dir, exist_ok=True)
                    hsh = hashlib.sha1((ob.name + repr(vals)).encode()).hexdigest()[:10]
                    rp = os.path.join(replay_dir, '%s-%s.json' % (ob.name, hsh))
                    exe = build.native_c(unit, ob.entry)
                    vf = rp + '.values'
                    with open(vf, 'w') as f:
                        f.write('\n'.join(str(v) for v in vals) + '\n')
                    env = dict(os.environ, VERIF_REPLAY=vf)
                    rc, o, e, dt = sh([exe], timeout=60, env=env)
                    native_fail = [l[len('ASSERTION-FAILED: '):] for l in o.splitlines() if l.startswith('ASSERTION-FAILED: ')]
                    r['replay'] = {'native_rc': rc, 'native_failed': native_fail[:5], 'reproduced': bool(native_fail) or rc not in (0, 77),
                                   'native_output': o[-1500:]}
                    with open(rp, 'w') as f:
                        json.dump({'property': prop, 'obligation': ob.name, 'harness': ob.harness, 'entry': ob.entry, 'defines': defines,
                                   'nondet_values_in_call_order': vals, 'cbmc_failed': res['failed'][:10], 'native_replay': r['replay'],
                                   'how_to_replay': 'python3 tools/vcheck.py %s --replay %s' % (prop, os.path.relpath(rp, VERIF))}, f, indent=1)
                    os.unlink(vf)
                    r['replay_path'] = os.path.relpath(rp, OUTDIR)
        else:
            r['status'] = 'holds'
        # witness twin: must be violated, and only at the WITNESS assertion
        if ob.witness and r['status'] == 'holds':
            wunit = build.unit(ob.harness, defines + ['WITNESS'], ob.opt, ob.ub, ob.redirect, ob.footprint, (), ob.vcall)
            wres, wout = run_cbmc(wunit['c'], ob.entry, unwind, ob.unwindset, ob.timeout, ob.mem_gb, ob.extra)
            queries += 1
            wf = [f for f in wres.get('failed', []) if 'WITNESS' in f['desc']]
            other = [f for f in wres.get('failed', []) if 'WITNESS' not in f['desc']]
            r['witness'] = {'status': wres['status'], 'time_s': wres['time_s'], 'reached': bool(wf), 'reused': bool(wres.get('reused_identical_query'))}
            if wres['status'] == 'timeout':
                r['status'] = 'inconclusive'; r['why'] = ('out of memory (limit %d GB) in the witness twin' % ob.mem_gb) if wres.get('oom') else 'witness twin timeout'
            elif not wf or other:
                r['status'] = 'vacuous'; r['why'] = 'witness twin did not fail exactly at the WITNESS assertion: %r' % (wres.get('failed', [])[:3],)
        r['queries'] = queries
    except InternalError as e:
        r['status'] = 'error'; r['why'] = str(e)[-1500:]
    r['wall_s'] = round(time.time() - t0, 2)
    return r


def load_known():
    p = os.path.join(VERIF, 'known_findings.json')
    if os.path.exists(p):
        return json.load(open(p))
    return {'open': [], 'fixed': []}


def match_known(known, prop, r):
    """an open finding matches iff obligation name and every failed assertion description are listed"""
    for k in known.get('open', []):
        if k['property'] != prop or k['obligation'] != r['name']:
            continue
        descs = set(f['desc'] for f in r.get('failed', []))
        if descs and descs <= set(k['assertions']):
            return k
    return None


def translation_validation(build, obls, tier, seeds):
    """native build of the generated C vs native build of the C++ harness, same random nondet streams"""
    done = {}
    progs = 0
    mism = []
    samples = []
    for ob in obls:
        defines = list(ob.defines_thorough if (tier == 'thorough' and ob.defines_thorough is not None) else ob.defines)
        if ob.redirect or ob.ub or not ob.opt.startswith('-O1') or ob.kind != 'cbmc' or ob.footprint:   # (call redirection exists only in the translated unit)
            continue
        key = (ob.harness, tuple(defines), ob.entry)
        if key in done:
            continue
        done[key] = 1
        unit = build.unit(ob.harness, defines, ob.opt, ob.ub, ob.redirect, False, (), ob.vcall)
        ce = build.native_c(unit, ob.entry)
        xe = build.native_cxx(unit, ob.entry)
        progs += 1
        for s in seeds:
            env = dict(os.environ, VERIF_SEED=str(s))
            env.pop('VERIF_REPLAY', None)
            r1 = sh([ce], timeout=60, env=env)
            r2 = sh([xe], timeout=60, env=env)
            if ob.entry.startswith('noctor:'):
                # the C++ binary runs dynamic initialisers (default opcode / RR-type tables) that the noctor entry skips:
                # capacity complaints of those initialisers are not part of the comparison
                flt = lambda t: '\n'.join(l for l in t.splitlines() if 'model-bound: vector push_back' not in l and not l.startswith('DONE failed='))
                r1 = (0, flt(r1[1])); r2 = (0, flt(r2[1]))
            if (r1[0], r1[1]) != (r2[0], r2[1]):
                mism.append({'entry': ob.entry, 'seed': s, 'c': r1[1][-300:], 'cxx': r2[1][-300:], 'rc': [r1[0], r2[0]]})
            elif len(samples) < 3:
                samples.append({'entry': ob.entry, 'seed': s, 'output_tail': r1[1][-120:]})
    return {'programs': progs, 'seeds_each': len(seeds), 'mismatches': mism, 'samples': samples}


def check_property(prop, tier, seed, only=None, keep=False, jobs=NCPU):
    import obligations
    spec = obligations.PROPS[prop]
    t0 = time.time()
    scratch = tempfile.mkdtemp(prefix='vcheck_%s_' % prop, dir=os.environ.get('TMPDIR', '/tmp'))
    build = Build(scratch)
    known = load_known()
    replay_dir = os.path.join(OUTDIR, 'replays', prop)
    obls = [o for o in spec['obligations'] if tier in o.tiers and (only is None or o.name in only)]
    results = []
    rc = 0
    try:
        # pre-build units serially per distinct key (clang + translator), then solve in parallel
        with concurrent.futures.ThreadPoolExecutor(max_workers=jobs) as ex:
            futs = []
            for ob in obls:
                if ob.kind == 'cbmc':
                    futs.append(ex.submit(run_obligation, build, ob, tier, replay_dir, prop))
                else:
                    futs.append(ex.submit(obligations.run_special, build, ob, tier, replay_dir, prop, sh, VERIF, REPO))
            for f in futs:
                results.append(f.result())
        # second pass, two at a time: obligations that got no verdict while 12 solver processes shared the machine (allocation
        # failure below their own limit, or killed early).  An obligation that used its whole time budget is not retried.
        retry = [k for k, r in enumerate(results) if obls[k].kind == 'cbmc' and r['status'] == 'inconclusive' and
                 (str(r.get('why', '')).startswith('out of memory') or
                  max(r.get('cbmc', {}).get('time_s', 0), r.get('witness', {}).get('time_s', 0)) < 0.8 * obls[k].timeout)]
        if retry and len(obls) > 2:
            with concurrent.futures.ThreadPoolExecutor(max_workers=2) as ex:
                futs = {k: ex.submit(run_obligation, build, obls[k], tier, replay_dir, prop) for k in retry}
                for k, f in futs.items():
                    r2 = f.result()
                    r2['retried_alone_after'] = results[k].get('why', '')
                    results[k] = r2
        tv = None
        if spec.get('translation_validation', True):
            try:
                tv = translation_validation(build, [o for o in obls if o.kind == 'cbmc'], tier, [seed + i for i in range(6 if tier == 'quick' else 24)])
            except InternalError as e:
                tv = {'programs': 0, 'mismatches': [{'error': str(e)[-1200:]}], 'samples': []}
    finally:
        if not keep:
            shutil.rmtree(scratch, ignore_errors=True)
    lines = []
    viol = 0
    internal = 0
    nk = 0
    for r in results:
        if r['status'] == 'violated':
            k = match_known(known, prop, r)
            if k is not None:
                r['status'] = 'known-finding'
                r['known'] = k['id']
                nk += 1
                lines.append('KNOWN-FINDING: property=%s %s [%s] %s' % (prop, k['id'], r['name'], k['what']))
            elif r.get('replay') is not None and not r['replay']['reproduced']:
                internal += 1
                lines.append('ENCODING-MISMATCH property=%s obligation=%s (counterexample did not reproduce natively)' % (prop, r['name']))
            else:
                viol += 1
                lines.append('VIOLATION property=%s replay=%s' % (prop, r.get('replay_path', 'replays/%s/%s.none' % (prop, r['name']))))
                lines.append('  obligation %s: %s' % (r['name'], '; '.join(f['desc'] for f in r.get('failed', [])[:4])))
        elif r['status'] in ('error', 'vacuous'):
            internal += 1
            lines.append('INTERNAL-ERROR property=%s obligation=%s: %s %s' % (prop, r['name'], r['status'], r.get('why', '')[:600]))
        elif r['status'] == 'inconclusive':
            lines.append('INCONCLUSIVE property=%s obligation=%s: %s' % (prop, r['name'], r.get('why', '')))
    if tv and tv['mismatches']:
        internal += 1
        lines.append('INTERNAL-ERROR property=%s translation validation mismatch: %r' % (prop, tv['mismatches'][:2]))
    holds = [r for r in results if r['status'] == 'holds']
    inconc = [r for r in results if r['status'] == 'inconclusive']
    wall = time.time() - t0
    functions = sorted(set(sum([list(o.functions) for o in obls], [])))
    ev = {
        'property_id': prop, 'tier': tier, 'seed': seed, 'level': 'model_checking',
        'coverage': {
            'evaluations': sum(r.get('queries', 0) for r in results),
            'distinct_nontrivial': len([r for r in results if r.get('witness', {}).get('reached') or r['status'] in ('known-finding', 'violated')]),
            'rule': 'one evaluation = one solver query (CBMC/SAT or SMT) over all inputs within the obligation\'s bounds; an obligation counts as '
                    'non-trivial when its WITNESS twin (same harness, final assert(false)) is violated, i.e. assumptions are satisfiable and the end '
                    'of the harness is reachable, or when it produced a counterexample',
            'obligations': len(results), 'discharged': len(holds), 'inconclusive': len(inconc),
            'known_findings_matched': nk, 'violations': viol,
            'verdicts_reused_from_identical_queries': sum(int(bool(r.get('cbmc', {}).get('reused'))) + int(bool(r.get('witness', {}).get('reused'))) for r in results),
            'solver_time_s': round(sum(r.get('cbmc', {}).get('time_s', 0) + r.get('witness', {}).get('time_s', 0) + r.get('smt_time_s', 0) for r in results), 1),
            'functions_encoded': functions,
            'units': sorted(set(o.harness for o in obls)),
            'translation_validation': tv,
            'samples': [{k: r.get(k) for k in ('name', 'entry', 'defines', 'unwind', 'bounds', 'desc', 'status', 'cbmc', 'witness', 'cmd', 'smt') if r.get(k) is not None} for r in results[:6]],
            'obligation_results': [{'name': r['name'], 'status': r['status'], 'time_s': r.get('wall_s'), 'bounds': r.get('bounds'), 'why': r.get('why', '')[:300],
                                    'failed': [f['desc'] for f in r.get('failed', [])[:4]], 'known': r.get('known')} for r in results],
            'exhaustive': False,
            'explanation': spec.get('explanation', ''),
        },
        'assumptions': spec.get('assumptions', []) + COMMON_ASSUMPTIONS,
        'wall_s': round(wall, 1), 'violations': viol,
    }
    os.makedirs(os.path.join(OUTDIR, 'evidence'), exist_ok=True)
    with open(os.path.join(OUTDIR, 'evidence', prop + '.json'), 'w') as f:
        json.dump(ev, f, indent=1)
    for l in lines:
        print(l)
    print('%s tier=%s obligations=%d holds=%d known=%d violated=%d inconclusive=%d internal=%d wall=%.0fs' % (
        prop, tier, len(results), len(holds), nk, viol, len(inconc), internal, wall))
    if viol:
        return 1
    if internal:
        return 2
    return 0


COMMON_ASSUMPTIONS = [
    'clang 14 front end + -O1 (or mem2reg/sroa for UB obligations) is a faithful lowering of the C++ sources',
    'tools/ir2c.py IR->C translation (validated on every run by native differential execution of generated C vs the C++ harness)',
    'model std/boost headers in /verif/stubs implement the contracts written in them (fixed capacities are bounds, exceeded capacity is an error)',
    'CBMC 6.11 + SAT back end; bounds are enforced by --unwinding-assertions',
    'allocation failure (operator new / malloc returning null) is outside every claim',
]


def replay(prop, path):
    rp = json.load(open(os.path.join(VERIF, path) if not os.path.isabs(path) else path))
    scratch = tempfile.mkdtemp(prefix='vreplay_')
    try:
        b = Build(scratch)
        unit = b.unit(rp['harness'], rp['defines'])
        exe = b.native_c(unit, rp['entry'])
        vf = os.path.join(scratch, 'values')
        with open(vf, 'w') as f:
            f.write('\n'.join(str(v) for v in rp['nondet_values_in_call_order']) + '\n')
        rc, o, e, dt = sh([exe], timeout=60, env=dict(os.environ, VERIF_REPLAY=vf))
        print(o)
        return 1 if 'ASSERTION-FAILED' in o or rc not in (0, 77) else 0
    finally:
        shutil.rmtree(scratch, ignore_errors=True)


def main():
    ap = argparse.ArgumentParser()
    ap.add_argument('prop')
    ap.add_argument('--tier', default=os.environ.get('VERIF_TIER', 'quick'))
    ap.add_argument('--only', action='append')
    ap.add_argument('--keep', action='store_true')
    ap.add_argument('--replay')
    ap.add_argument('--jobs', type=int, default=NCPU)
    a = ap.parse_args()
    seed = int(os.environ.get('VERIF_SEED', '1'))
    if a.replay:
        sys.exit(replay(a.prop, a.replay))
    try:
        sys.exit(check_property(a.prop, a.tier, seed, a.only, a.keep, a.jobs))
    except InternalError as e:
        print('INTERNAL-ERROR property=%s %s' % (a.prop, str(e)[-2000:]))
        sys.exit(2)


if __name__ == '__main__':
    main()
