#!/usr/bin/env python3
"""prints the per-property as-built table of DESIGN.md 9.10 from obligations.PROPS (run by hand after changing obligations)"""
import os, sys
VERIF = os.path.dirname(os.path.dirname(os.path.abspath(__file__)))
sys.path.insert(0, VERIF); sys.path.insert(0, os.path.join(VERIF, 'tools'))
import obligations
print('| property | units (harness) | obligations quick / thorough | bounds (union over obligations) |')
print('|---|---|---|---|')
for p in sorted(obligations.PROPS):
    o = obligations.PROPS[p]['obligations']
    q = [x for x in o if 'quick' in x.tiers]; t = [x for x in o if 'thorough' in x.tiers]
    b = {}
    for x in o:
        for k, v in (x.bounds or {}).items():
            b.setdefault(k, [])
            if str(v) not in b[k]:
                b[k].append(str(v))
    bs = '; '.join('%s: %s' % (k, ' / '.join(v[:3])) for k, v in list(b.items())[:7])
    print('| %s | %s | %d / %d | %s |' % (p, ', '.join(sorted({x.harness for x in o if x.harness})), len(q), len(t), bs.replace('|', '/')))
