#!/usr/bin/env python3
"""setup_cmd: verify that the tools the checks need are present (nothing is built or fetched)"""
import shutil, sys
missing = [t for t in ('clang++-14', 'opt-14', 'cbmc', 'gcc', 'z3', 'cvc5', 'z3-new') if shutil.which(t) is None]
if missing:
    print('missing tools:', missing); sys.exit(1)
print('tools present')
