#!/bin/sh
# runall.sh [tier] : every claimed property's command in sequence (as `vp check` does); summary of exit codes at the end
tier=${1:-quick}
cd "$(dirname "$0")/.." || exit 2
out=${VERIF_RUNALL_LOG:-/tmp/verif_runall_$tier}
mkdir -p "$out"
rc_all=0
for p in $(python3 -c "import json; print(' '.join(c['property_id'] for c in json.load(open('MANIFEST.json'))['checks']))"); do
  t0=$(date +%s)
  ./check "$p" "$tier" > "$out/$p.txt" 2>&1
  rc=$?
  echo "$p rc=$rc $(( $(date +%s) - t0 ))s $(tail -1 "$out/$p.txt")"
  [ $rc -ne 0 ] && rc_all=1
done
exit $rc_all
