#!/usr/bin/env python3
"""regenerate MANIFEST.json from obligations.PROPS and the texts below"""
import json, os, sys, subprocess
VERIF = os.path.dirname(os.path.dirname(os.path.abspath(__file__)))
sys.path.insert(0, VERIF); sys.path.insert(0, os.path.join(VERIF, 'tools'))
import obligations

TEXT = {
 'C05': ('Bounded symbolic model checking of the real decoder (IR-derived C, CBMC/SAT): every primitive from an arbitrary I_dec state on arbitrary remaining input of bounded length, at hooked window sizes; End-of-input must be thrown exactly when the input is a truncated prefix. Block/file level: CdnsBlockRead::read truncated at every token boundary and CdnsReader::read_block one step from an arbitrary reader state (nested reads as contracts): CdnsDecoderEnd propagates, eof exactly at the end, the block counter counts complete blocks only; file header (reader_header): input ending inside the header gives CdnsDecoderEnd.', '4 C05, 3.2, 3.6'),
 'C06': ('Bounded symbolic model checking of the real encoder: one inductive step per public write operation from an arbitrary buffer state (symbolic fill level/contents/argument) against a reference RFC 8949 encoder; sequences of any length follow from the step.', '4 C06, 3.2'),
 'C07': ('Bounded symbolic model checking of the real decoder against a reference RFC 8949 parser, all head widths and window offsets; skip_item verified body-wise against the contract of its recursive call.', '4 C07, 3.3'),
 'C01': ('Compositional bounded model checking: L1 bytes<->items is C06/C07; here L2: every block-level structure\'s write() equals an independently written RFC 8618 reference encoding and read() of the reference encoding returns the value (all presence subsets, full-width integers, symbolic member order; directed runs with every member present). Block composition with the nested reads/writes as contracts: CdnsBlock::write / write_blocktables (w_block, w_blocktables), CdnsBlockRead::read (r_block_*: members, record order, parameter set, time-offset data flow under arbitrary hint masks), CdnsReader::read_block (reader_block_o0). Generic record -> block: C04 and, in the thorough tier, generic_lists_* (add_generic_rrlist/qlist: every stored entry denotes exactly its record; quick tier: C11). Not encoded: read_blocktables, read_generic_*.', '4 C01, 3.5, 9.2, 9.3'),
 'C02': ('Bounded model checking of every *::write against an item acceptor: exactly one well-formed item per call, declared length == members present, every key followed by a value, including structures with no member set; block level: CdnsBlock::write helpers (w_blocktables, w_block) and the exporter document automaton one step at a time (header once before the first block, blocks, exactly one break iff blocks were written: exp_write_block, exp_rotate, exp_destroy).', '4 C02, 3.5, 9.1'),
 'C08': ('Bounded model checking of every map reader on the reference encoding with a symbolic permutation of the members, definite/indefinite form and unknown members with opaque values (<= 2..4 members per map in the quick tier), plus directed runs with every member present; file header (reader_header): file array and blocks array in either length form.', '4 C08, 3.5, 9.3, 9.12'),
 'C09': ('Bounded model checking of the preamble structures: write() == RFC 8618 reference encoding, read(reference) == value member for member including presence and list order (symbolic-order readers for the small structures; directed readers -- every member present, canonical order, all values symbolic -- for FilePreamble, StorageParameters, CollectionParameters, BlockParameters); CdnsReader constructor / read_file_header (reader_header) stores the preamble and the blocks-array form for read_block().', '4 C09, 3.5, 9.3, 9.12'),
 'C10': ('Bounded model checking: encoder operations return the bytes appended (L1); with an arbitrary positive size per encoder call every *::write returns exactly the sum (L2).', '4 C10'),
 'C04': ('Bounded model checking of the real CdnsBlock::add_question_response_record / add_address_event_count (add_malformed_message: thorough) on real block tables under FULLY SYMBOLIC hint masks (all 2^32 x 2^32 x 2^8 x 2^8 values): a member is stored iff its hint bit is set and the value was given, values kept, the address table holds only entries a stored member refers to, address events only when their bit is set; record members symbolic in groups (the other groups concretely absent); StorageHints::write emits the masks (w_storagehints). RR lists of the generic record: generic_lists_* in the thorough tier (two records per list, every RR hint mask: TTL/RDATA stored iff hinted and supplied by that record; quick tier: C11). The CdnsBlock::write side of reachability is outside the bound.', '4 C04, 9.3, 9.12'),
 'C03': ('Bounded symbolic model checking of every read-side unit that touches untrusted bytes (decoder primitives on arbitrary input, renderers on arbitrary strings) plus an SMT verdict over all 64-bit values for the time-offset arithmetic; memory safety = CBMC pointer/bounds checks inside the real code; division by zero asserted in every unit; schema level: CdnsBlockRead::read (complete, truncated, parameter index out of range) and the file header reader on four arbitrary items (any kind / length / bytes, toupper precondition): failure only through the exceptions of the decoder.', '4 C03, 9.12'),
 'C11': ('Solver verdict for all values of each table key type (hash/equality agreement, two symbolic values) and bounded model checking of whole BlockTable histories (<= 3 symbolic additions + queries); CdnsBlock::add_generic_rrlist / add_generic_qlist on two symbolic records: returned and stored indices valid, each entry denotes its record (generic_lists_q, generic_lists_rr_ttl with concrete names and symbolic TTL presence / hint mask; RDATA variants in the thorough tier).', '4 C11, 9.12'),
 'C12': ('Bounded model checking of one exporter step from an arbitrary valid state (inductive): flush exactly at the configured size, conservation of records across a flush, re-arming with the active parameter set, counters.', '4 C12, 3.2'),
 'C20': ('Inventory of library-owned mutable globals and external calls recomputed from the IR on every run + solver-checked footprint (no store can alias such a global) on representative entry points of every unit; schedules themselves are not explored.', '4 C20, 3.9'),
 'C13': ('Bounded model checking of rotation at the writer and encoder layers: a rotation that returns normally has closed the old output; all buffered bytes reach the old sink first; exporter level, one step from an arbitrary valid state: rotate_output closes the old document with exactly one break iff it holds blocks, rotates the writer once, resets the counter, keeps unexported records (exp_rotate, exp_destroy).', '4 C13, 9.1'),
 'C14': ('Bounded model checking of the real gzip driver against a nondeterministic model of the zlib API (progress, FINISH/STREAM_END), ghost byte accounting; compression itself is trusted.', '4 C14'),
 'C15': ('Bounded model checking of Writer<std::string> histories against a file-system model that checks the completeness invariant at every stub call (= every instant the process could die).', '4 C15'),
 'C16': ('Bounded model checking with the outcome of every ::write / ofstream operation nondeterministic (fault sequences symbolic); swallowed failures are listed as known findings.', '4 C16'),
 'C19': ('Bounded model checking of BlockTable copy construction / assignment with the source destroyed afterwards: CBMC\'s deallocated-object check decides independence; block level (copy_blockread): the four copy/move operations of CdnsBlockRead with CdnsBlock::operator= as a contract -- base part copied once, read cursors of the copy reset to its own containers whatever the cursors of the source were; the member-wise whole-block copy itself is outside the bound.', '4 C19, 9.12'),
 'C17': ('Solver verdicts (z3/cvc5, integer encoding with explicit wrap) over ALL 64-bit inputs of the loop-free timestamp kernels inside the stated preconditions; encoding regenerated from the IR and validated against a native build each run.', '4 C17, 2.4'),
}
NOTE = 'Trusted: clang-14 lowering, tools/ir2c.py (validated per run by native differential execution), model std/boost headers in stubs/, CBMC 6.11 + cadical; bounds in evidence (every claim is bounded: loop unrollings with --unwinding-assertions, container capacities with model-bound assertions, sizes per obligation); hooked codec window sizes instead of 2048/65535; obligations without a verdict (time-out / memory) are printed INCONCLUSIVE, counted in the evidence and are not part of the claim; translation validation is skipped for units with redirected (contract) calls; counterexamples are reported only after they replay natively. Details and deviations from the plan: DESIGN.md section 9.'
TECH = {'C17': 'symbolic execution of LLVM IR to QF_NIA terms + z3/cvc5 (unsat = holds for all 64-bit values)'}

def main():
    props = [json.loads(l) for l in open(os.path.join(VERIF, 'properties.jsonl'))]
    hooks = subprocess.run(['git', '-C', '/repo', 'log', '--format=%h %s'], stdout=subprocess.PIPE).stdout.decode().splitlines()
    hook_commits = [l.split()[0] for l in hooks if l.split(' ', 1)[1].startswith('verif hook')]
    checks = []
    na = []
    reasons = json.load(open(os.path.join(VERIF, 'not_applicable.json'))) if os.path.exists(os.path.join(VERIF, 'not_applicable.json')) else {}
    for p in props:
        pid = p['id']
        if pid in obligations.PROPS and pid in TEXT:
            checks.append({
                'property_id': pid, 'quick_cmd': './check %s quick' % pid, 'thorough_cmd': './check %s thorough' % pid,
                'evidence_file': 'evidence/%s.json' % pid, 'replay_cmd_template': 'python3 tools/vcheck.py %s --replay {path}' % pid,
                'engine': 'vcheck',
                'level_claimed': {'category': 'model_checking', 'text': TEXT[pid][0], 'design_ref': TEXT[pid][1]},
                'level_note': NOTE,
                'technique': TECH.get(pid, 'bounded symbolic execution of the real code (clang IR -> C -> CBMC/SAT), solver verdict per obligation'),
            })
        else:
            na.append({'property_id': pid, 'reason': reasons.get(pid, 'check not built yet (round 1 in progress); will be claimed once its solver-based check exists')})
    m = {'version': 1,
         'setup_cmd': 'python3 tools/selftest.py',
         'hooks': {'guard': 'CDNS_VERIF', 'enable': '-DCDNS_VERIF -DCDNS_VERIF_ENCODER_BUFFER_SIZE=<n> / -DCDNS_VERIF_DECODER_BUFFER_SIZE=<n> passed to clang++-14 by tools/vcheck.py when lowering /repo/src to LLVM IR',
                   'baseline_off_cmd': 'cmake --build /repo/_build && ctest --test-dir /repo/_build -j8 --timeout 900',
                   'source_commits': hook_commits, 'add_only': True},
         'engines': [{'name': 'vcheck', 'path': 'tools/vcheck.py', 'serves_properties': [c['property_id'] for c in checks],
                      'kind_free_text': 'clang++-14 -> LLVM IR -> tools/ir2c.py -> C -> cbmc 6.11 (cadical); tools/ir2smt.py -> z3/cvc5 for 64-bit mul/div kernels'}],
         'checks': checks,
         'notes': 'All checks rebuild from /repo\'s working tree into a scratch dir under $TMPDIR and remove it. Exit 0 holds / 1 VIOLATION / 2 internal error.',
         'not_applicable': na}
    json.dump(m, open(os.path.join(VERIF, 'MANIFEST.json'), 'w'), indent=1)
    print('checks:', [c['property_id'] for c in checks], 'n/a:', len(na))

if __name__ == '__main__':
    main()
