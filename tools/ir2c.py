#!/usr/bin/env python3
"""ir2c.py -- translate textual LLVM-14 IR (typed pointers) into one C translation unit
that CBMC's C front end accepts.  Part of the c-dns verification machinery (DESIGN.md 2.3).

Supported: integer / pointer / struct / array types, all integer instructions, GEP, load,
store, phi, select, br, switch, call (direct + indirect via candidate enumeration), invoke /
landingpad / resume (exceptions as a global flag + type-info chain), alloca, memcpy/memset
intrinsics, *.with.overflow, min/max/abs/bswap, SSE4.2 crc32 intrinsics.
Not supported (translator stops with an error): floating point arithmetic, vectors.

usage: ir2c.py in.ll -o out.c [--ub] [--redirect old=new]... [--entry name]...
  --ub         turn nsw/nuw/exact-shift/division UB conditions into assertions
               (only meaningful on IR produced without UB-exploiting optimisation)
  --redirect   calls to function `old` (mangled) go to `new` instead (contract stubs)
  --footprint  instrument stores/loads against mutable globals (C20)
"""
import sys, re, argparse, collections

# ----------------------------------------------------------------------------- tokenizer
TOK_RE = re.compile(r'''
    (?P<ws>\s+)
  | (?P<comment>;[^\n]*)
  | (?P<cstr>c"(?:[^"\\]|\\[0-9A-Fa-f]{2}|\\\\)*")
  | (?P<str>"(?:[^"\\]|\\.)*")
  | (?P<local>%(?:"(?:[^"\\]|\\.)*"|[-a-zA-Z$._0-9]+))
  | (?P<glob>@(?:"(?:[^"\\]|\\.)*"|[-a-zA-Z$._0-9]+))
  | (?P<meta>![-a-zA-Z$._0-9]*(?:\([^)]*\))?)
  | (?P<attr>\#[0-9]+)
  | (?P<dollar>\$(?:"(?:[^"\\]|\\.)*"|[-a-zA-Z$._0-9]+))
  | (?P<fp>-?[0-9]+\.[0-9]*(?:[eE][-+]?[0-9]+)?|0x[KLMHR]?[0-9A-Fa-f]+)
  | (?P<int>-?[0-9]+)
  | (?P<dots>\.\.\.)
  | (?P<word>[a-zA-Z_][-a-zA-Z$._0-9]*)
  | (?P<punct>[()\[\]{}<>,=*:|])
''', re.X)


def tokenize(s):
    out = []
    pos = 0
    n = len(s)
    while pos < n:
        m = TOK_RE.match(s, pos)
        if not m:
            raise SyntaxError('cannot tokenize at: %r' % s[pos:pos + 60])
        pos = m.end()
        k = m.lastgroup
        if k in ('ws', 'comment'):
            continue
        out.append((k, m.group(k)))
    return out


def unq(name):
    """strip sigil and quotes"""
    name = name[1:]
    if name.startswith('"'):
        name = name[1:-1]
    return name


def cid(name):
    """C identifier from an arbitrary IR name"""
    r = []
    for ch in name:
        if ch.isalnum() or ch == '_':
            r.append(ch)
        else:
            r.append('_%02x' % ord(ch) if ch not in '.: ' else '_')
    s = ''.join(r)
    return s


# ----------------------------------------------------------------------------- types
class T:
    __slots__ = ('k', 'a', 'b', 'c')

    def __init__(self, k, a=None, b=None, c=None):
        self.k, self.a, self.b, self.c = k, a, b, c

    def key(self):
        if self.k in ('int',):
            return ('int', self.a)
        if self.k == 'ptr':
            return ('ptr', self.a.key())
        if self.k == 'arr':
            return ('arr', self.a, self.b.key())
        if self.k == 'named':
            return ('named', self.a)
        if self.k == 'lit':
            return ('lit', self.a, tuple(x.key() for x in self.b))
        if self.k == 'func':
            return ('func', self.a.key(), tuple(x.key() for x in self.b), self.c)
        if self.k == 'vec':
            return ('vec', self.a, self.b.key())
        return (self.k,)

    def __eq__(self, o):
        return isinstance(o, T) and self.key() == o.key()

    def __hash__(self):
        return hash(self.key())

    def __repr__(self):
        return 'T%r' % (self.key(),)


VOID = T('void')
I1, I8, I32, I64 = T('int', 1), T('int', 8), T('int', 32), T('int', 64)
I8P = T('ptr', I8)


class Parser:
    def __init__(self, toks):
        self.t = toks
        self.i = 0

    def peek(self, off=0):
        j = self.i + off
        return self.t[j] if j < len(self.t) else ('eof', '')

    def next(self):
        x = self.peek()
        self.i += 1
        return x

    def accept(self, val):
        if self.peek()[1] == val:
            self.i += 1
            return True
        return False

    def expect(self, val):
        x = self.next()
        if x[1] != val:
            raise SyntaxError('expected %r got %r near %r' % (val, x, self.t[max(0, self.i - 8):self.i + 4]))
        return x

    def eof(self):
        return self.i >= len(self.t)

    # ---- types
    def parse_type(self):
        k, v = self.next()
        if k == 'word':
            if v == 'void':
                t = VOID
            elif re.fullmatch(r'i[0-9]+', v):
                t = T('int', int(v[1:]))
            elif v in ('float', 'double', 'half', 'x86_fp80', 'fp128', 'bfloat'):
                t = T('fp', v)
            elif v == 'label':
                t = T('label')
            elif v == 'metadata':
                t = T('metadata')
            elif v == 'token':
                t = T('token')
            elif v == 'opaque':
                t = T('opaque')
            elif v == 'ptr':
                raise SyntaxError('opaque pointers not supported')
            else:
                raise SyntaxError('unknown type word %r' % v)
        elif k == 'local':
            t = T('named', unq(v))
        elif v == '[':
            n = int(self.next()[1])
            self.expect('x')
            et = self.parse_type()
            self.expect(']')
            t = T('arr', n, et)
        elif v == '{':
            els = []
            if not self.accept('}'):
                while True:
                    els.append(self.parse_type())
                    if self.accept('}'):
                        break
                    self.expect(',')
            t = T('lit', False, tuple(els))
        elif v == '<':
            if self.peek()[1] == '{':
                self.next()
                els = []
                if not self.accept('}'):
                    while True:
                        els.append(self.parse_type())
                        if self.accept('}'):
                            break
                        self.expect(',')
                self.expect('>')
                t = T('lit', True, tuple(els))
            else:
                n = int(self.next()[1])
                self.expect('x')
                et = self.parse_type()
                self.expect('>')
                t = T('vec', n, et)
        else:
            raise SyntaxError('bad type start %r' % ((k, v),))
        # suffixes
        while True:
            p = self.peek()
            if p[1] == '*':
                self.next()
                t = T('ptr', t)
            elif p[1] == 'addrspace':
                self.next(); self.expect('('); self.next(); self.expect(')')
                self.expect('*')
                t = T('ptr', t)
            elif p[1] == '(':
                self.next()
                params = []
                va = False
                if not self.accept(')'):
                    while True:
                        if self.peek()[0] == 'dots':
                            self.next()
                            va = True
                        else:
                            params.append(self.parse_type())
                            self.skip_param_attrs()
                        if self.accept(')'):
                            break
                        self.expect(',')
                t = T('func', t, tuple(params), va)
            else:
                break
        return t

    PARAM_ATTRS = {'noundef', 'nonnull', 'nocapture', 'readonly', 'readnone', 'writeonly', 'zeroext', 'signext',
                   'noalias', 'returned', 'nest', 'inreg', 'immarg', 'nofree', 'swiftself', 'swifterror',
                   'noreturn', 'nounwind'}

    def skip_param_attrs(self):
        while True:
            k, v = self.peek()
            if k == 'word' and v in self.PARAM_ATTRS:
                self.next()
            elif k == 'word' and v in ('align', 'dereferenceable', 'dereferenceable_or_null'):
                self.next()
                if self.accept('('):
                    self.next(); self.expect(')')
                else:
                    self.next()
            elif k == 'word' and v in ('sret', 'byval', 'byref', 'preallocated', 'inalloca', 'elementtype'):
                self.next()
                if self.accept('('):
                    self.parse_type(); self.expect(')')
            else:
                break


# ----------------------------------------------------------------------------- values
class V:
    """operand: kind in local, global, int, null, undef, zero, cstr, agg, cexpr"""
    __slots__ = ('k', 't', 'd')

    def __init__(self, k, t, d=None):
        self.k, self.t, self.d = k, t, d


CAST_OPS = ('bitcast', 'inttoptr', 'ptrtoint', 'trunc', 'zext', 'sext', 'addrspacecast')
BIN_OPS = ('add', 'sub', 'mul', 'udiv', 'sdiv', 'urem', 'srem', 'shl', 'lshr', 'ashr', 'and', 'or', 'xor')


class Module:
    def __init__(self):
        self.types = collections.OrderedDict()   # name -> T (lit) or opaque
        self.globals = collections.OrderedDict()  # name -> dict
        self.funcs = collections.OrderedDict()    # name -> Func
        self.attrs = {}                           # '#n' -> set(words)


class Func:
    def __init__(self):
        self.name = None
        self.ret = None
        self.params = []   # (type, name)
        self.vararg = False
        self.blocks = None  # list of (label, [instr]) or None for declarations
        self.attrs = set()
        self.linkage = ''


def parse_value(p, t):
    """parse a constant or operand of (already parsed) type t"""
    k, v = p.peek()
    if k == 'local':
        p.next()
        return V('local', t, unq(v))
    if k == 'glob':
        p.next()
        return V('global', t, unq(v))
    if k == 'int':
        p.next()
        return V('int', t, int(v))
    if k == 'fp':
        p.next()
        return V('undef', t, None)
    if k == 'cstr':
        p.next()
        return V('cstr', t, decode_cstr(v))
    if k == 'word':
        if v == 'true':
            p.next(); return V('int', t, 1)
        if v == 'false':
            p.next(); return V('int', t, 0)
        if v == 'null':
            p.next(); return V('null', t)
        if v in ('undef', 'poison'):
            p.next(); return V('undef', t)
        if v == 'zeroinitializer':
            p.next(); return V('zero', t)
        if v == 'getelementptr':
            p.next()
            inb = p.accept('inbounds')
            p.expect('(')
            bt = p.parse_type(); p.expect(',')
            pt = p.parse_type(); base = parse_value(p, pt)
            idx = []
            while p.accept(','):
                p.accept('inrange')
                it = p.parse_type(); idx.append(parse_value(p, it))
            p.expect(')')
            return V('cexpr', t, ('gep', bt, base, idx))
        if v in CAST_OPS:
            p.next(); p.expect('(')
            st = p.parse_type(); sv = parse_value(p, st)
            p.expect('to'); dt = p.parse_type(); p.expect(')')
            return V('cexpr', dt, ('cast', v, sv))
        if v in BIN_OPS:
            p.next()
            while p.peek()[1] in ('nuw', 'nsw', 'exact'):
                p.next()
            p.expect('(')
            at = p.parse_type(); a = parse_value(p, at); p.expect(',')
            bt = p.parse_type(); b = parse_value(p, bt); p.expect(')')
            return V('cexpr', at, ('bin', v, a, b))
        if v == 'icmp':
            p.next(); pred = p.next()[1]; p.expect('(')
            at = p.parse_type(); a = parse_value(p, at); p.expect(',')
            bt = p.parse_type(); b = parse_value(p, bt); p.expect(')')
            return V('cexpr', I1, ('icmp', pred, a, b))
        if v == 'select':
            p.next(); p.expect('(')
            ct = p.parse_type(); c = parse_value(p, ct); p.expect(',')
            at = p.parse_type(); a = parse_value(p, at); p.expect(',')
            bt = p.parse_type(); b = parse_value(p, bt); p.expect(')')
            return V('cexpr', at, ('select', c, a, b))
        raise SyntaxError('unknown constant word %r' % v)
    if v == '{' or (v == '<' and p.peek(1)[1] == '{'):
        packed = (v == '<')
        if packed:
            p.next()
        p.next()
        els = []
        if not p.accept('}'):
            while True:
                et = p.parse_type(); els.append(parse_value(p, et))
                if p.accept('}'):
                    break
                p.expect(',')
        if packed:
            p.expect('>')
        return V('agg', t, els)
    if v == '[':
        p.next()
        els = []
        if not p.accept(']'):
            while True:
                et = p.parse_type(); els.append(parse_value(p, et))
                if p.accept(']'):
                    break
                p.expect(',')
        return V('agg', t, els)
    raise SyntaxError('bad value start %r' % ((k, v),))


def decode_cstr(tok):
    s = tok[2:-1]
    out = []
    i = 0
    while i < len(s):
        if s[i] == '\\':
            if s[i + 1] == '\\':
                out.append(92); i += 2
            else:
                out.append(int(s[i + 1:i + 3], 16)); i += 3
        else:
            out.append(ord(s[i])); i += 1
    return out


# ----------------------------------------------------------------------------- module parser
LINKAGE = {'private', 'internal', 'available_externally', 'linkonce', 'weak', 'common', 'appending', 'extern_weak',
           'linkonce_odr', 'weak_odr', 'external', 'dso_local', 'dso_preemptable', 'hidden', 'protected', 'default',
           'unnamed_addr', 'local_unnamed_addr', 'thread_local', 'externally_initialized', 'dllimport', 'dllexport'}


def join_lines(text):
    """join multi-line constructs (switch tables, landingpad clauses) into single logical lines"""
    lines = text.split('\n')
    out = []
    i = 0
    while i < len(lines):
        ln = lines[i]
        st = ln.strip()
        if st.startswith('switch ') and st.endswith('['):
            acc = ln
            i += 1
            while not lines[i].strip().startswith(']'):
                acc += ' ' + lines[i].strip()
                i += 1
            acc += ' ]'
            out.append(acc)
        elif ' landingpad ' in ln and '=' in ln:
            acc = ln
            while i + 1 < len(lines) and re.match(r'\s+(cleanup|catch|filter)\b', lines[i + 1]):
                i += 1
                acc += ' ' + lines[i].strip()
            out.append(acc)
        elif st.startswith('to label ') and out:
            out[-1] += ' ' + st
        else:
            out.append(ln)
        i += 1
    return out


def parse_module(text):
    m = Module()
    lines = join_lines(text)
    i = 0
    n = len(lines)
    while i < n:
        ln = lines[i]
        st = ln.strip()
        i += 1
        if not st or st.startswith(';') or st.startswith('source_filename') or st.startswith('target ') \
                or st.startswith('!') or st.startswith('$') or st.startswith('module asm'):
            continue
        if st.startswith('attributes #'):
            mm = re.match(r'attributes (#[0-9]+) = \{(.*)\}', st)
            m.attrs[mm.group(1)] = set(re.findall(r'[a-z_]+', mm.group(2)))
            continue
        if st.startswith('%'):
            p = Parser(tokenize(st))
            name = unq(p.next()[1]); p.expect('='); p.expect('type')
            if p.peek()[1] == 'opaque':
                m.types[name] = None
            else:
                m.types[name] = p.parse_type()
            continue
        if st.startswith('@'):
            parse_global(m, st)
            continue
        if st.startswith('declare'):
            p = Parser(tokenize(st)); p.next()
            f = parse_fn_header(m, p)
            m.funcs.setdefault(f.name, f)
            continue
        if st.startswith('define'):
            p = Parser(tokenize(st)); p.next()
            f = parse_fn_header(m, p)
            body = []
            while lines[i].strip() != '}':
                body.append(lines[i]); i += 1
            i += 1
            f.blocks = parse_body(body)
            m.funcs[f.name] = f
            continue
        raise SyntaxError('unhandled top-level line: %r' % st[:100])
    return m


def parse_global(m, st):
    p = Parser(tokenize(st))
    name = unq(p.next()[1]); p.expect('=')
    g = {'name': name, 'const': False, 'external': False, 'init': None, 'linkage': set(), 'alias': None}
    while p.peek()[0] == 'word' and (p.peek()[1] in LINKAGE):
        g['linkage'].add(p.next()[1])
    if p.peek()[1] == 'alias':
        p.next()
        t = p.parse_type(); p.expect(',')
        at = p.parse_type(); g['alias'] = parse_value(p, at); g['type'] = t
        m.globals[name] = g
        return
    kw = p.next()[1]
    if kw == 'constant':
        g['const'] = True
    elif kw != 'global':
        raise SyntaxError('global kw %r in %s' % (kw, st[:80]))
    t = p.parse_type()
    g['type'] = t
    if 'external' in g['linkage'] or 'extern_weak' in g['linkage'] or 'available_externally' in g['linkage'] and False:
        g['external'] = True
    nx = p.peek()
    if not g['external'] and nx[0] != 'eof' and nx[1] != ',':
        g['init'] = parse_value(p, t)
    m.globals[name] = g


def parse_fn_header(m, p):
    f = Func()
    while p.peek()[0] == 'word' and p.peek()[1] in LINKAGE:
        f.linkage += p.next()[1] + ' '
    # cconv etc
    while p.peek()[0] == 'word' and p.peek()[1] in ('ccc', 'fastcc', 'coldcc'):
        p.next()
    p.skip_param_attrs()
    f.ret = parse_type_nofunc(p)
    f.name = unq(p.next()[1])
    p.expect('(')
    if not p.accept(')'):
        while True:
            if p.peek()[0] == 'dots':
                p.next(); f.vararg = True
            else:
                t = p.parse_type()
                p.skip_param_attrs()
                nm = None
                if p.peek()[0] == 'local':
                    nm = unq(p.next()[1])
                f.params.append((t, nm))
            if p.accept(')'):
                break
            p.expect(',')
    # attrs
    while not p.eof():
        k, v = p.next()
        if k == 'attr':
            f.attrs |= m.attrs.get(v, set()) if v in m.attrs else {v}
        elif k == 'word':
            f.attrs.add(v)
    # unnamed params get numbers
    ctr = 0
    ps = []
    for (t, nm) in f.params:
        if nm is None:
            nm = str(ctr); ctr += 1
        elif nm.isdigit():
            ctr = int(nm) + 1
        ps.append((t, nm))
    f.params = ps
    f.entry_implicit = str(ctr)
    return f


def parse_type_nofunc(p):
    """return type in a header: parse a type but do not treat following '(' as function type suffix"""
    # parse base + pointer stars manually: temporarily hide by scanning
    save = p.i
    # find the global-name token that starts the function name
    j = p.i
    depth = 0
    while True:
        k, v = p.t[j]
        if k == 'glob' and depth == 0:
            break
        if v in '([{<':
            depth += 1
        elif v in ')]}>':
            depth -= 1
        j += 1
    sub = Parser(p.t[p.i:j])
    t = sub.parse_type()
    assert sub.eof(), 'return type parse'
    p.i = j
    return t


class I:
    """instruction"""
    __slots__ = ('op', 'res', 't', 'a', 'flags', 'line')

    def __init__(self, op, res=None, t=None, a=None, flags=()):
        self.op, self.res, self.t, self.a, self.flags = op, res, t, a, set(flags)


def parse_body(lines):
    blocks = []
    cur = None
    for ln in lines:
        st = ln.strip()
        if not st or st.startswith(';'):
            continue
        mm = re.match(r'^([-a-zA-Z$._0-9]+|"[^"]*"):', st)
        if mm:
            lab = mm.group(1)
            if lab.startswith('"'):
                lab = lab[1:-1]
            cur = (lab, [])
            blocks.append(cur)
            continue
        if cur is None:
            cur = (None, [])
            blocks.append(cur)
        ins = parse_instr(st)
        ins.line = st
        cur[1].append(ins)
    return blocks


def skip_tail(p):
    """skip ', align N' ', !md !n' and attribute refs at end of instruction"""
    while not p.eof():
        p.next()


def parse_call_like(p, res, op):
    flags = set()
    while p.peek()[0] == 'word' and p.peek()[1] in ('tail', 'musttail', 'notail', 'fast', 'nnan', 'ninf', 'nsz', 'ccc', 'fastcc'):
        p.next()
    p.skip_param_attrs()
    # return type (may be a function type for varargs calls: "i32 (i8*, ...) @printf")
    # parse type up to callee token
    j = p.i
    depth = 0
    while True:
        k, v = p.t[j]
        if depth == 0 and (k in ('glob', 'local') and p.t[j + 1][1] == '(' or (k == 'word' and v in CAST_OPS) or (k == 'word' and v == 'asm')):
            break
        if v in '([{<':
            depth += 1
        elif v in ')]}>':
            depth -= 1
        j += 1
    sub = Parser(p.t[p.i:j])
    rt = sub.parse_type()
    p.i = j
    fnty = None
    if rt.k == 'func':
        fnty = rt
        rt = rt.a
    k, v = p.peek()
    if k == 'word' and v == 'asm':
        raise SyntaxError('inline asm not supported')
    callee = parse_value(p, T('ptr', fnty or T('func', rt, (), False)))
    p.expect('(')
    args = []
    if not p.accept(')'):
        while True:
            at = p.parse_type()
            p.skip_param_attrs()
            if at.k == 'metadata':
                # metadata argument: skip tokens to , or )
                depth = 0
                while not (depth == 0 and p.peek()[1] in (',', ')')):
                    v2 = p.next()[1]
                    if v2 in '([{<':
                        depth += 1
                    elif v2 in ')]}>':
                        depth -= 1
                args.append(V('undef', at))
            else:
                args.append(parse_value(p, at))
            if p.accept(')'):
                break
            p.expect(',')
    attrs = set()
    normal = unwind = None
    while not p.eof():
        k, v = p.peek()
        if k == 'attr':
            attrs.add(v); p.next()
        elif v == 'to':
            p.next(); p.expect('label'); normal = unq(p.next()[1])
            p.expect('unwind'); p.expect('label'); unwind = unq(p.next()[1])
        elif k == 'word' and v in ('nounwind', 'noreturn', 'readnone', 'readonly'):
            attrs.add(v); p.next()
        elif v == '[':  # operand bundles
            while p.next()[1] != ']':
                pass
        else:
            p.next()
    return I(op, res, rt, {'callee': callee, 'args': args, 'attrs': attrs, 'normal': normal, 'unwind': unwind, 'fnty': fnty})


def parse_instr(st):
    p = Parser(tokenize(st))
    res = None
    if p.peek()[0] == 'local' and p.peek(1)[1] == '=':
        res = unq(p.next()[1]); p.next()
    op = p.next()[1]
    if op in BIN_OPS:
        flags = set()
        while p.peek()[1] in ('nuw', 'nsw', 'exact'):
            flags.add(p.next()[1])
        t = p.parse_type(); a = parse_value(p, t); p.expect(','); b = parse_value(p, t)
        return I(op, res, t, (a, b), flags)
    if op == 'icmp':
        pred = p.next()[1]
        t = p.parse_type(); a = parse_value(p, t); p.expect(','); b = parse_value(p, t)
        return I('icmp', res, I1, (pred, a, b))
    if op in CAST_OPS:
        st_ = p.parse_type(); v = parse_value(p, st_); p.expect('to'); dt = p.parse_type()
        return I('cast', res, dt, (op, v))
    if op == 'getelementptr':
        inb = p.accept('inbounds')
        bt = p.parse_type(); p.expect(',')
        pt = p.parse_type(); base = parse_value(p, pt)
        idx = []
        while p.accept(','):
            it = p.parse_type(); idx.append(parse_value(p, it))
        return I('gep', res, None, (bt, base, idx), {'inbounds'} if inb else ())
    if op == 'load':
        while p.peek()[1] in ('volatile', 'atomic'):
            p.next()
        t = p.parse_type(); p.expect(',')
        pt = p.parse_type(); ptr = parse_value(p, pt)
        return I('load', res, t, (ptr,))
    if op == 'store':
        while p.peek()[1] in ('volatile', 'atomic'):
            p.next()
        t = p.parse_type(); v = parse_value(p, t); p.expect(',')
        pt = p.parse_type(); ptr = parse_value(p, pt)
        return I('store', None, None, (v, ptr))
    if op == 'alloca':
        p.accept('inalloca')
        t = p.parse_type()
        cnt = None
        if p.accept(','):
            if p.peek()[1] != 'align' and p.peek()[1] != 'addrspace':
                ct = p.parse_type(); cnt = parse_value(p, ct)
        return I('alloca', res, T('ptr', t), (t, cnt))
    if op == 'phi':
        t = p.parse_type()
        inc = []
        while True:
            p.expect('['); v = parse_value(p, t); p.expect(','); lab = unq(p.next()[1]); p.expect(']')
            inc.append((v, lab))
            if not p.accept(','):
                break
        return I('phi', res, t, inc)
    if op == 'select':
        ct = p.parse_type(); c = parse_value(p, ct); p.expect(',')
        at = p.parse_type(); a = parse_value(p, at); p.expect(',')
        bt = p.parse_type(); b = parse_value(p, bt)
        return I('select', res, at, (c, a, b))
    if op == 'br':
        if p.peek()[1] == 'label':
            p.next(); return I('br', None, None, (unq(p.next()[1]),))
        p.expect('i1'); c = parse_value(p, I1); p.expect(','); p.expect('label'); l1 = unq(p.next()[1])
        p.expect(','); p.expect('label'); l2 = unq(p.next()[1])
        return I('condbr', None, None, (c, l1, l2))
    if op == 'switch':
        t = p.parse_type(); v = parse_value(p, t); p.expect(','); p.expect('label'); dflt = unq(p.next()[1])
        p.expect('[')
        cases = []
        while not p.accept(']'):
            ct = p.parse_type(); cv_ = parse_value(p, ct); p.expect(','); p.expect('label'); cases.append((cv_, unq(p.next()[1])))
        return I('switch', None, None, (v, dflt, cases))
    if op == 'ret':
        t = p.parse_type()
        if t.k == 'void':
            return I('ret', None, None, (None,))
        return I('ret', None, None, (parse_value(p, t),))
    if op == 'unreachable':
        return I('unreachable')
    if op in ('call', 'invoke'):
        return parse_call_like(p, res, op)
    if op in ('tail', 'musttail', 'notail'):
        p.expect('call')
        return parse_call_like(p, res, 'call')
    if op == 'landingpad':
        t = p.parse_type()
        cleanup = False
        clauses = []
        while not p.eof():
            w = p.next()[1]
            if w == 'cleanup':
                cleanup = True
            elif w == 'catch':
                ct = p.parse_type(); clauses.append(('catch', parse_value(p, ct)))
            elif w == 'filter':
                ct = p.parse_type(); clauses.append(('filter', parse_value(p, ct)))
        return I('landingpad', res, t, (cleanup, clauses))
    if op == 'resume':
        t = p.parse_type(); v = parse_value(p, t)
        return I('resume', None, None, (v,))
    if op == 'extractvalue':
        t = p.parse_type(); v = parse_value(p, t)
        idx = []
        while p.accept(','):
            idx.append(int(p.next()[1]))
        return I('extractvalue', res, None, (v, idx))
    if op == 'insertvalue':
        t = p.parse_type(); v = parse_value(p, t); p.expect(',')
        et = p.parse_type(); e = parse_value(p, et)
        idx = []
        while p.accept(','):
            idx.append(int(p.next()[1]))
        return I('insertvalue', res, t, (v, e, idx))
    if op == 'freeze':
        t = p.parse_type(); v = parse_value(p, t)
        return I('freeze', res, t, (v,))
    if op == 'fence':
        return I('nop')
    raise SyntaxError('unsupported instruction %r in: %s' % (op, st[:120]))


# ----------------------------------------------------------------------------- emitter
class Emitter:
    def __init__(self, m, opts):
        self.m = m
        self.opts = opts
        self.out = []
        self.struct_names = {}     # named -> C name
        self.lit_names = {}        # key -> C name
        self.lit_types = {}        # C name -> T
        self.arr_names = {}
        self.arr_types = {}
        self.fn_typedefs = {}
        self.fn_typedef_list = []
        self.gname = {}
        self.used_cnames = set()
        self.redirect = {}
        self.redirect_self = {}     # old -> new, only for (recursive) calls from within `old` itself
        self.redirect_cdns = {}     # old -> new, only for calls made from c-dns code (namespace CDNS), not from the harness
        for old, new in (opts.redirect or []):
            if new.endswith('@self'):
                self.redirect_self[old] = new[:-5]
            elif new.endswith('@cdns'):
                self.redirect_cdns[old] = new[:-5]
            else:
                self.redirect[old] = new
        self.size_cache = {}
        self.typeinfo_ids = {}
        self.addr_taken = None

    # ---- naming
    def sname(self, name):
        if name not in self.struct_names:
            base = 'S_' + cid(name)
            c = base
            k = 1
            while c in self.used_cnames:
                k += 1; c = '%s_%d' % (base, k)
            self.used_cnames.add(c)
            self.struct_names[name] = c
        return self.struct_names[name]

    def gn(self, name):
        if name in self.redirect:
            name = self.redirect[name]
        if name not in self.gname:
            f = self.m.funcs.get(name)
            if f is not None and f.blocks is None and is_env_name(name) and ('ext_' + name) in self.m.funcs:
                # address of a declared-only libc-level external (e.g. toupper passed to std::transform): its model
                self.gname[name] = 'ext_' + cid(name)
                return self.gname[name]
            c = cid(name)
            if not (c[0].isalpha() or c[0] == '_'):
                c = 'g_' + c
            if c in C_RESERVED:
                c = c + '_'
            self.gname[name] = c
        return self.gname[name]

    # ---- type rendering
    def resolve(self, t):
        return t

    def ct(self, t):
        """C type string for a value of type t (not declarator-aware: pointers to functions use typedefs)"""
        k = t.k
        if k == 'void':
            return 'void'
        if k == 'int':
            return int_ctype(t.a)
        if k == 'ptr':
            if t.a.k == 'func':
                return self.fn_typedef(t.a) + ' *'
            if t.a.k == 'void':
                return 'u8 *'
            return self.ct(t.a) + ' *'
        if k == 'named':
            return 'struct ' + self.sname(t.a)
        if k == 'lit':
            return 'struct ' + self.litname(t)
        if k == 'arr':
            return 'struct ' + self.arrname(t)
        if k == 'func':
            return self.fn_typedef(t)
        if k == 'fp':
            return {'float': 'float', 'double': 'double'}.get(t.a, 'long double')
        if k in ('metadata', 'token', 'label'):
            return 'int'
        raise NotImplementedError('ctype of %r' % t)

    def litname(self, t):
        key = t.key()
        if key not in self.lit_names:
            nm = 'L%d' % len(self.lit_names)
            self.lit_names[key] = nm
            self.lit_types[nm] = t
            for e in t.b:
                self.touch(e)
        return self.lit_names[key]

    def arrname(self, t):
        key = t.key()
        if key not in self.arr_names:
            nm = 'A%d_%d' % (t.a, len(self.arr_names))
            self.arr_names[key] = nm
            self.arr_types[nm] = t
            self.touch(t.b)
        return self.arr_names[key]

    def touch(self, t):
        if t.k in ('lit', 'arr', 'ptr', 'func'):
            try:
                self.ct(t)
            except NotImplementedError:
                pass

    def fn_typedef(self, t):
        key = t.key()
        if key not in self.fn_typedefs:
            nm = 'FT%d' % len(self.fn_typedefs)
            self.fn_typedefs[key] = nm
            params = [self.ct(x) for x in t.b]
            if t.c and params:
                params.append('...')
            if not params:
                params = [] if t.c else ['void']
            self.fn_typedef_list.append('typedef %s %s(%s);' % (self.ct(t.a), nm, ', '.join(params)))
        return self.fn_typedefs[key]

    # ---- sizes (x86-64 data layout)
    def size_align(self, t):
        key = t.key()
        if key in self.size_cache:
            return self.size_cache[key]
        k = t.k
        if k == 'int':
            b = (t.a + 7) // 8
            s = 1
            while s < b:
                s *= 2
            r = (s, min(s, 8)) if s <= 8 else (16, 16)
        elif k == 'ptr':
            r = (8, 8)
        elif k == 'fp':
            r = {'float': (4, 4), 'double': (8, 8)}.get(t.a, (16, 16))
        elif k == 'arr':
            s, a = self.size_align(t.b)
            r = (s * t.a, a)
        elif k == 'named':
            d = self.m.types.get(t.a)
            if d is None:
                raise ValueError('size of opaque %s' % t.a)
            r = self.size_align(d)
        elif k == 'lit':
            off = 0
            al = 1
            for e in t.b:
                s, a = self.size_align(e)
                if t.a:
                    a = 1
                off = (off + a - 1) // a * a
                off += s
                al = max(al, a)
            off = (off + al - 1) // al * al
            r = (off, al)
        else:
            raise ValueError('size of %r' % t)
        self.size_cache[key] = r
        return r

    def elem_type(self, t, idx):
        """type of element idx (int or None) of aggregate type t"""
        if t.k == 'named':
            t = self.m.types[t.a]
        if t.k == 'lit':
            return t.b[idx]
        if t.k == 'arr':
            return t.b
        raise ValueError('elem_type of %r' % t)

    # ---- constants / operands
    def zero(self, t):
        if t.k in ('int',):
            return '0'
        if t.k == 'ptr':
            return '((%s)0)' % self.ct(t)
        if t.k == 'fp':
            return '0'
        return '{0}'

    def val(self, v, fn=None, static=False):
        """C expression for operand v"""
        t = v.t
        k = v.k
        if k == 'local':
            return fn.lv(v.d)
        if k == 'global':
            name = v.d
            if name in self.m.funcs or (name in self.redirect):
                return '(&%s)' % self.gn(name) if not static else '%s' % self.gn(name)
            g = self.m.globals.get(name)
            if g is not None and g['alias'] is not None:
                return self.val(g['alias'], fn, static)
            return '(&%s)' % self.gn(name)
        if k == 'int':
            return int_lit(v.d, t)
        if k == 'null':
            return '((%s)0)' % self.ct(t)
        if k == 'undef':
            if t.k in ('int', 'ptr', 'fp'):
                return self.zero(t) if (static or t.k != 'int') else self.zero(t)
            return '(%s){0}' % self.ct(t) if not static else '{0}'
        if k == 'zero':
            if t.k in ('int', 'ptr', 'fp'):
                return self.zero(t)
            return '(%s){0}' % self.ct(t) if not static else '{0}'
        if k == 'cstr':
            body = '{{%s}}' % ','.join(str(b) for b in v.d)
            return body if static else '(%s)%s' % (self.ct(t), body)
        if k == 'agg':
            if t.k == 'arr' or (t.k == 'named' and False):
                body = '{{%s}}' % ','.join(self.val(e, fn, static) for e in v.d) if v.d else '{0}'
            else:
                body = '{%s}' % ','.join(self.val(e, fn, static) for e in v.d) if v.d else '{0}'
            return body if static else '(%s)%s' % (self.ct(t), body)
        if k == 'cexpr':
            return self.cexpr(v, fn, static)
        raise NotImplementedError(k)

    def cexpr(self, v, fn, static):
        d = v.d
        if d[0] == 'gep':
            return self.gep(d[1], d[2], d[3], fn, static)
        if d[0] == 'cast':
            return self.cast(d[1], d[2], v.t, fn, static)
        if d[0] == 'bin':
            return self.binop(d[1], d[2], d[3], v.t, set(), fn)[0]
        if d[0] == 'icmp':
            return self.icmp(d[1], d[2], d[3], fn)
        if d[0] == 'select':
            return '(%s ? %s : %s)' % (self.val(d[1], fn), self.val(d[2], fn), self.val(d[3], fn))
        raise NotImplementedError(d[0])

    def gep_type(self, bt, idx):
        t = bt
        for ix in idx[1:]:
            tt = t
            if tt.k == 'named':
                tt = self.m.types[tt.a]
            if tt.k == 'lit':
                t = tt.b[ix.d]
            elif tt.k == 'arr':
                t = tt.b
            elif tt.k == 'vec':
                t = tt.b
            else:
                raise ValueError('gep into %r' % tt)
        return T('ptr', t)

    def gep(self, bt, base, idx, fn, static=False):
        b = self.val(base, fn, static)
        if static and b.startswith('(&') and False:
            pass
        e = '(%s)' % b
        first = idx[0]
        if not (first.k == 'int' and first.d == 0):
            e = '%s[%s]' % (e, self.sidx(first, fn))
        else:
            e = '(*%s)' % e
        t = bt
        for ix in idx[1:]:
            tt = t
            if tt.k == 'named':
                tt = self.m.types[tt.a]
            if tt.k == 'lit':
                e = '%s.f%d' % (e, ix.d)
                t = tt.b[ix.d]
            elif tt.k == 'arr':
                e = '%s.a[%s]' % (e, self.sidx(ix, fn))
                t = tt.b
            else:
                raise ValueError('gep into %r' % tt)
        return '(&%s)' % e

    def sidx(self, v, fn):
        if v.k == 'int':
            return str(v.d)
        s = self.val(v, fn)
        w = v.t.a
        return '(%s)%s' % (sint_ctype(w), s)

    def cast(self, op, sv, dt, fn, static=False):
        s = self.val(sv, fn, static)
        st = sv.t
        if op in ('bitcast', 'addrspacecast'):
            if st.k == 'ptr' and dt.k == 'ptr':
                return '((%s)%s)' % (self.ct(dt), s)
            if st == dt:
                return s
            raise NotImplementedError('bitcast %r -> %r' % (st, dt))
        if op == 'inttoptr':
            return '((%s)(u64)%s)' % (self.ct(dt), s)
        if op == 'ptrtoint':
            return mask('((%s)(u64)%s)' % (int_ctype(dt.a), s), dt.a)
        if op == 'trunc':
            if dt.a == 1:
                return '((_Bool)((%s) & 1))' % s
            return mask('((%s)%s)' % (int_ctype(dt.a), s), dt.a)
        if op == 'zext':
            return '((%s)%s)' % (int_ctype(dt.a), s)
        if op == 'sext':
            if st.a == 1:
                return mask('(%s ? (%s)~(%s)0 : (%s)0)' % (s, int_ctype(dt.a), int_ctype(dt.a), int_ctype(dt.a)), dt.a)
            return mask('((%s)(%s)%s)' % (int_ctype(dt.a), sint_ctype(dt.a), self.sx(s, st.a)), dt.a)
        raise NotImplementedError(op)

    def sx(self, s, w):
        """signed view of expression s of width w (as C signed type of container width)"""
        cw = cwidth(w)
        if cw == w:
            return '((%s)%s)' % (sint_ctype(w), s)
        # odd width: shift up then arithmetic shift down
        return '(((%s)((%s)%s << %d)) >> %d)' % (sint_ctype(w), int_ctype(w), s, cw - w, cw - w)

    def binop(self, op, a, b, t, flags, fn):
        """returns (expr, [ub-conditions])"""
        if t.k == 'vec':
            raise NotImplementedError('vector op')
        w = t.a
        A, B = self.val(a, fn), self.val(b, fn)
        ct = int_ctype(w)
        wide = 'u64' if w <= 64 else 'unsigned __int128'
        if w < 32:
            UA, UB = '(u32)%s' % A, '(u32)%s' % B
        else:
            UA, UB = A, B
        ub = []
        if op in ('add', 'sub', 'mul'):
            sym = {'add': '+', 'sub': '-', 'mul': '*'}[op]
            e = mask('((%s)(%s %s %s))' % (ct, UA, sym, UB), w)
            if self.opts.ub:
                if 'nsw' in flags:
                    ub.append('!__builtin_%s_overflow_p(%s, %s, (%s)0)' % (op, self.sx(A, w), self.sx(B, w), sint_ctype(w)) if cwidth(w) == w else '1')
                if 'nuw' in flags:
                    ub.append('!__builtin_%s_overflow_p(%s, %s, (%s)0)' % (op, A, B, ct) if cwidth(w) == w else '1')
            return e, ub
        if op in ('and', 'or', 'xor'):
            sym = {'and': '&', 'or': '|', 'xor': '^'}[op]
            if w == 1:
                return '((_Bool)((%s %s %s) & 1))' % (A, sym, B), ub
            return '((%s)(%s %s %s))' % (ct, A, sym, B), ub
        if op in ('udiv', 'urem'):
            sym = '/' if op == 'udiv' else '%'
            ub.append('%s != 0' % B)
            return '((%s)(%s == 0 ? 0 : %s %s %s))' % (ct, B, UA, sym, UB), ub
        if op in ('sdiv', 'srem'):
            sym = '/' if op == 'sdiv' else '%'
            SA, SB = self.sx(A, w), self.sx(B, w)
            mn = '((%s)1 << %d)' % (wide, w - 1)
            ub.append('%s != 0' % B)
            ub.append('!(%s == %s && %s == (%s)%s)' % (A, mask('(%s)%s' % (ct, mn), w), SB, sint_ctype(w), '-1'))
            safe = '(%s == 0 || (%s == %s && %s == -1))' % (B, A, mask('(%s)%s' % (ct, mn), w), SB)
            return mask('((%s)(%s ? 0 : ((%s)%s %s (%s)%s)))' % (ct, safe, 'i64' if w <= 64 else '__int128', SA, sym, 'i64' if w <= 64 else '__int128', SB), w), ub
        if op in ('shl', 'lshr', 'ashr'):
            ub.append('%s < %d' % (B, w))
            if op == 'shl':
                body = '(%s)%s << %s' % (wide, A, B)
            elif op == 'lshr':
                body = '(%s)%s >> %s' % (wide, A, B)
            else:
                body = '(%s)%s >> %s' % ('i64' if w <= 64 else '__int128', self.sx(A, w), B)
            return mask('((%s)(%s >= %d ? 0 : (%s)))' % (ct, B, w, body), w), ub
        raise NotImplementedError(op)

    def icmp(self, pred, a, b, fn):
        A, B = self.val(a, fn), self.val(b, fn)
        sym = {'eq': '==', 'ne': '!=', 'ult': '<', 'ule': '<=', 'ugt': '>', 'uge': '>=',
               'slt': '<', 'sle': '<=', 'sgt': '>', 'sge': '>='}[pred]
        if a.t.k == 'ptr':
            if pred in ('eq', 'ne'):
                return '((_Bool)(%s %s %s))' % (A, sym, B)
            # relational comparison of pointers: kept as a pointer comparison (same object in the source), which the
            # checker can decide from offsets; a detour through integers makes every such loop condition symbolic
            return '((_Bool)__PCMP(%s, %s, %s))' % (A, sym, B)
        if pred[0] == 's':
            return '((_Bool)(%s %s %s))' % (self.sx(A, a.t.a), sym, self.sx(B, a.t.a))
        return '((_Bool)(%s %s %s))' % (A, sym, B)

    # ---- module emission
    def emit(self):
        m = self.m
        o = self.out
        # pre-scan: address-taken functions and typeinfo hierarchy
        self.scan_addr_taken()
        self.scan_typeinfo()
        body = []
        # function bodies first (collect types)
        protos = []
        for name, f in m.funcs.items():
            if name.startswith('llvm.'):
                continue
            if name in self.redirect:
                # the original keeps its own name: it is still emitted (body verified separately)
                pass
            if f.blocks is None and is_env_name(name) and ('ext_' + name) in m.funcs:
                continue
            st_ = 'static ' if (f.blocks is not None and ('internal' in f.linkage or 'private' in f.linkage)) else ''
            protos.append(st_ + self.proto(f) + ';')
        fbodies = []
        for name, f in m.funcs.items():
            if f.blocks is None:
                continue
            fe = FuncEmitter(self, f)
            fbodies.append(fe.emit())
        gdecls, gdefs = self.emit_globals()
        # types
        o.append('/* generated by ir2c.py -- do not edit */')
        o.append('#include "rt.h"')
        for nm in m.types:
            o.append('struct %s;' % self.sname(nm))
        # make sure all lit/arr types used inside named structs are registered
        for nm, d in m.types.items():
            if d is not None:
                for e in d.b:
                    self.touch_deep(e)
        changed = True
        for nm in list(self.lit_names.values()):
            o.append('struct %s;' % nm)
        for nm in list(self.arr_names.values()):
            o.append('struct %s;' % nm)
        o.extend(self.fn_typedef_list_flush())
        o.extend(self.emit_struct_defs())
        o.extend(self.fn_typedef_list_flush())
        o.extend(gdecls)
        o.extend(protos)
        o.extend(self.emit_typeinfo_rt())
        o.extend(gdefs)
        if self.opts.footprint:
            o.extend(self.emit_footprint())
        o.extend(fbodies)
        o.extend(self.emit_ctor_runner())
        return '\n'.join(o) + '\n'

    def fn_typedef_list_flush(self):
        r = self.fn_typedef_list
        self.fn_typedef_list = []
        return r

    def touch_deep(self, t):
        if t.k == 'ptr':
            if t.a.k == 'func':
                self.ct(t)
            else:
                self.touch_deep(t.a)
        elif t.k == 'arr':
            self.ct(t); self.touch_deep(t.b)
        elif t.k == 'lit':
            self.ct(t)
            for e in t.b:
                self.touch_deep(e)
        elif t.k == 'func':
            self.ct(t)

    def emit_struct_defs(self):
        """emit struct definitions in by-value dependency order"""
        m = self.m
        done = set()
        out = []
        # iterate to a fixpoint because rendering may register new lit/arr types
        pending = True

        def deps(t):
            if t.k == 'named':
                return [('n', t.a)]
            if t.k == 'lit':
                return [('l', self.litname(t))]
            if t.k == 'arr':
                return [('a', self.arrname(t))]
            return []

        def fields_of(key):
            kind, nm = key
            if kind == 'n':
                d = m.types.get(nm)
                return None if d is None else (d.a, list(d.b))
            if kind == 'l':
                d = self.lit_types[nm]
                return (d.a, list(d.b))
            d = self.arr_types[nm]
            return (False, [d])

        def visit(key, stack=()):
            if key in done:
                return
            if key in stack:
                raise ValueError('recursive by-value struct %r' % (key,))
            kind, nm = key
            fl = fields_of(key)
            if fl is None:
                done.add(key)
                return
            packed, fs = fl
            if kind == 'a':
                at = self.arr_types[nm]
                for dkey in deps(at.b):
                    visit(dkey, stack + (key,))
                done.add(key)
                out.append('struct %s { %s a[%d]; };' % (nm, self.ct(at.b), max(at.a, 1)))
                return
            for ft in fs:
                for dkey in deps(ft):
                    visit(dkey, stack + (key,))
            done.add(key)
            cname = self.sname(nm) if kind == 'n' else nm
            if not fs:
                out.append('struct %s { u8 __empty; }%s;' % (cname, ''))
            else:
                out.append('struct %s%s { %s };' % ('__attribute__((packed)) ' if packed else '', cname,
                                                    ' '.join('%s f%d;' % (self.ct(ft), i) for i, ft in enumerate(fs))))

        while True:
            before = (len(self.lit_names), len(self.arr_names), len(done))
            for nm in list(m.types):
                visit(('n', nm))
            for nm in list(self.lit_names.values()):
                visit(('l', nm))
            for nm in list(self.arr_names.values()):
                visit(('a', nm))
            if before == (len(self.lit_names), len(self.arr_names), len(done)):
                break
        # forward declarations for any types registered late
        fw = ['struct %s;' % nm for nm in list(self.lit_names.values()) + list(self.arr_names.values())]
        return fw + out

    def proto(self, f, with_names=False):
        name = f.name
        ps = []
        for (t, nm) in f.params:
            ps.append('%s%s' % (self.ct(t), (' ' + 'v_' + cid(nm)) if with_names else ''))
        if f.vararg and ps:
            ps.append('...')
        if not ps:
            ps = [] if f.vararg else ['void']
        cname = cid(name) if name not in self.gname or name in self.redirect else self.gname[name]
        # function's own C name ignores redirect (redirect applies to *uses*)
        cname = self.own_name(name)
        return '%s %s(%s)' % (self.ct(f.ret), cname, ', '.join(ps))

    def own_name(self, name):
        f = self.m.funcs.get(name)
        if f is not None and f.blocks is None and is_env_name(name):
            return 'ext_' + cid(name)
        c = cid(name)
        if not (c[0].isalpha() or c[0] == '_'):
            c = 'g_' + c
        if c in C_RESERVED:
            c += '_'
        return c

    def emit_globals(self):
        decls, defs = [], []
        for name, g in self.m.globals.items():
            if name.startswith('llvm.'):
                continue
            if g['alias'] is not None:
                continue
            t = g['type']
            cn = self.gn(name)
            try:
                cty = self.ct(t)
            except NotImplementedError:
                continue
            if g['init'] is None:
                decls.append('extern %s %s;' % (cty, cn))
            else:
                decls.append('extern %s %s;' % (cty, cn))
                init = self.val(g['init'], None, static=True)
                if not init.startswith('{'):
                    init = init
                defs.append('%s %s = %s;' % (cty, cn, init))
        return decls, defs

    HARNESS_GLOBAL_RE = re.compile(r'^((_ZL\d+)?(g_|w_|r_|z_)|W$|R$|__vs_|__exc|__verif|__fp_|nd_val|_ZSt[34]c(err|out|in)$|_ZTV|_ZTI|_ZTS|\.str|_str|llvm\.|__dso_handle)')

    def library_globals(self):
        """mutable (non-constant) globals of the linked module that belong to the library: everything that is not a
        harness / model / ABI object.  Recomputed on every run, so a new 'static' in c-dns shows up automatically."""
        out = []
        for name, g in self.m.globals.items():
            if g['alias'] is not None or g['const'] or g['init'] is None:
                continue
            if self.HARNESS_GLOBAL_RE.search(name):
                continue
            out.append(name)
        return out

    def emit_footprint(self):
        libs = self.library_globals()
        out = ['/* C20 footprint monitor: library-owned mutable globals = %s */' % (', '.join(libs) or '(none)')]
        conds = ' && '.join('__CPROVER_POINTER_OBJECT(p) != __CPROVER_POINTER_OBJECT((void*)&%s)' % self.gn(n) for n in libs) or '1'
        out.append('#ifdef __CPROVER__')
        out.append('void __fp_store(void *p) { __CPROVER_assert(%s, "C20: no store to a library-owned mutable global outside its dynamic initialiser"); }' % conds)
        out.append('void __fp_load(void *p) { (void)p; }')
        out.append('#else')
        out.append('void __fp_store(void *p) { (void)p; } void __fp_load(void *p) { (void)p; }')
        out.append('#endif')
        out.append('const char *__fp_inventory = "%s";' % ' '.join(libs))
        return out

    def emit_ctor_runner(self):
        g = self.m.globals.get('llvm.global_ctors')
        calls = []
        if g is not None and g['init'] is not None and g['init'].k == 'agg':
            ents = []
            for e in g['init'].d:
                prio = e.d[0].d
                fn = strip_casts(e.d[1])
                if fn is not None and fn.k == 'global':
                    ents.append((prio, fn.d))
            for prio, fn in sorted(ents, key=lambda x: x[0]):
                calls.append('  %s();' % self.own_name(fn))
        out = ['/* dynamic initialisers (llvm.global_ctors), to be run before a harness entry */',
               'void __verif_global_ctors(void) {'] + calls + ['}']
        # entry wrappers
        for name, f in self.m.funcs.items():
            if f.blocks is not None and name.startswith('h_') and not f.params:
                out.append('void run_%s(void) { __verif_global_ctors(); %s(); }' % (name, self.own_name(name)))
        return out

    def base_chain(self, name):
        out = [name]
        seen = set()
        while True:
            d = self.m.types.get(name)
            if d is None or d.k != 'lit' or not d.b or d.b[0].k != 'named' or d.b[0].a in seen:
                break
            name = d.b[0].a
            seen.add(name)
            out.append(name)
        return out

    def related_classes(self, a, b):
        return a == b or b in self.base_chain(a) or a in self.base_chain(b)

    def vtable_slot_funcs(self, k):
        """functions stored at virtual slot k (array index k+2: offset-to-top and RTTI come first) of any vtable"""
        if not hasattr(self, '_vt'):
            self._vt = {}
            for name, g in self.m.globals.items():
                if not name.startswith('_ZTV') or g['init'] is None or g['init'].k != 'agg':
                    continue
                for arr in g['init'].d:
                    if arr.k != 'agg':
                        continue
                    for idx, e in enumerate(arr.d):
                        b = strip_casts(e)
                        if b is not None and b.k == 'global' and b.d in self.m.funcs:
                            self._vt.setdefault(idx - 2, set()).add(b.d)
        return self._vt.get(k, set())

    def scan_addr_taken(self):
        taken = set()

        def walk(v, callee=False):
            if v is None:
                return
            if v.k == 'global':
                if not callee and v.d in self.m.funcs:
                    taken.add(v.d)
            elif v.k == 'agg':
                for e in v.d:
                    walk(e)
            elif v.k == 'cexpr':
                d = v.d
                if d[0] == 'gep':
                    walk(d[2])
                    for x in d[3]:
                        walk(x)
                elif d[0] == 'cast':
                    walk(d[2], callee)
                else:
                    for x in d[1:]:
                        if isinstance(x, V):
                            walk(x)

        for g in self.m.globals.values():
            if g['init'] is not None:
                walk(g['init'])
            if g['alias'] is not None:
                walk(g['alias'])
        for f in self.m.funcs.values():
            if f.blocks is None:
                continue
            for lab, ins in f.blocks:
                for i in ins:
                    for v in instr_operands(i):
                        walk(v)
                    if i.op in ('call', 'invoke'):
                        walk(i.a['callee'], callee=True)
        self.addr_taken = taken

    # ---- type info / exceptions
    def scan_typeinfo(self):
        """typeinfo globals: name starts with _ZTI; bases from si/vmi class type info initialisers"""
        self.ti_bases = {}
        for name, g in self.m.globals.items():
            if not name.startswith('_ZTI'):
                continue
            bases = []
            init = g['init']
            if init is not None and init.k == 'agg':
                for e in init.d[2:]:
                    b = strip_casts(e)
                    if b is not None and b.k == 'global' and b.d.startswith('_ZTI'):
                        bases.append(b.d)
            self.ti_bases[name] = bases
        ids = {}
        for i, name in enumerate(sorted(self.ti_bases)):
            ids[name] = i + 1
        self.typeinfo_ids = ids

    def ti_id(self, v):
        b = strip_casts(v)
        if b is None or b.k == 'null':
            return 0
        if b.k == 'global':
            if b.d not in self.typeinfo_ids:
                self.typeinfo_ids[b.d] = len(self.typeinfo_ids) + 1
                self.ti_bases.setdefault(b.d, [])
            return self.typeinfo_ids[b.d]
        raise ValueError('typeinfo operand')

    def ti_ancestors(self, name):
        seen = []
        st = [name]
        while st:
            x = st.pop()
            if x in seen:
                continue
            seen.append(x)
            st.extend(self.ti_bases.get(x, []))
        return seen

    def emit_typeinfo_rt(self):
        out = ['/* type-info subclass relation (from the IR) */',
               'static _Bool __ti_isa(int thrown, int target) {',
               '  if (thrown == target) return 1;',
               '  switch (thrown) {']
        for name, i in sorted(self.typeinfo_ids.items(), key=lambda x: x[1]):
            anc = [self.typeinfo_ids[a] for a in self.ti_ancestors(name) if a in self.typeinfo_ids and a != name]
            if anc:
                out.append('    case %d: return %s; /* %s */' % (i, ' || '.join('target == %d' % a for a in anc), name))
        out += ['    default: return 0;', '  }', '}',
                'static int __ti_id_of(void *p) {']
        for name, i in sorted(self.typeinfo_ids.items(), key=lambda x: x[1]):
            if name in self.m.globals:
                out.append('  if (p == (void*)&%s) return %d;' % (self.gn(name), i))
        out += ['  return -1;', '}']
        return out


C_RESERVED = {'main', 'write', 'read', 'close', 'open', 'free', 'malloc', 'memcpy', 'memset', 'memmove', 'strlen',
              'rename', 'int', 'char', 'float', 'double', 'long', 'short', 'signed', 'unsigned', 'void', 'if', 'else',
              'for', 'while', 'do', 'switch', 'case', 'default', 'break', 'continue', 'return', 'goto', 'sizeof',
              'struct', 'union', 'enum', 'typedef', 'static', 'extern', 'const', 'volatile', 'register', 'auto',
              'inline', 'restrict', 'abs', 'exit', 'abort', 'fstat', 'toupper', 'inet_ntop', 'deflate', 'deflateEnd',
              'deflateInit2_', 'lzma_code', 'lzma_end', 'lzma_easy_encoder'}
# externals from libc keep their names on purpose (rt / models define them); only C keywords are renamed
C_RESERVED = {'int', 'char', 'float', 'double', 'long', 'short', 'signed', 'unsigned', 'void', 'if', 'else',
              'for', 'while', 'do', 'switch', 'case', 'default', 'break', 'continue', 'return', 'goto', 'sizeof',
              'struct', 'union', 'enum', 'typedef', 'static', 'extern', 'const', 'volatile', 'register', 'auto',
              'inline', 'restrict', 'main'}


def is_env_name(name):
    """declared-only C-level externals (libc, zlib, ...) are routed to ext_<name> models"""
    return not name.startswith(('_Z', '__cxa', '__verif', 'nondet_', '__vs_', 'llvm.', '__gxx', 'ext_', '__CPROVER', '__clang'))


def strip_casts(v):
    while v is not None and v.k == 'cexpr' and v.d[0] == 'cast':
        v = v.d[2]
    return v


def instr_operands(i):
    a = i.a
    op = i.op
    if op in BIN_OPS:
        return list(a)
    if op == 'icmp':
        return [a[1], a[2]]
    if op == 'cast':
        return [a[1]]
    if op == 'gep':
        return [a[1]] + list(a[2])
    if op == 'load':
        return [a[0]]
    if op == 'store':
        return [a[0], a[1]]
    if op == 'alloca':
        return [a[1]] if a[1] is not None else []
    if op == 'phi':
        return [v for v, l in a]
    if op == 'select':
        return list(a)
    if op == 'condbr':
        return [a[0]]
    if op == 'switch':
        return [a[0]]
    if op == 'ret':
        return [a[0]] if a[0] is not None else []
    if op in ('call', 'invoke'):
        return list(a['args'])
    if op == 'landingpad':
        return [c[1] for c in a[1]]
    if op == 'resume':
        return [a[0]]
    if op == 'extractvalue':
        return [a[0]]
    if op == 'insertvalue':
        return [a[0], a[1]]
    if op == 'freeze':
        return [a[0]]
    return []


def cwidth(w):
    for c in (8, 16, 32, 64, 128):
        if w <= c:
            return c
    raise ValueError(w)


def int_ctype(w):
    if w == 1:
        return '_Bool'
    c = cwidth(w)
    return 'unsigned __int128' if c == 128 else 'u%d' % c


def sint_ctype(w):
    c = cwidth(w)
    return '__int128' if c == 128 else 'i%d' % c


def mask(e, w):
    if w == 1 or cwidth(w) == w:
        return e
    return '((%s)(%s & ((((%s)1) << %d) - 1)))' % (int_ctype(w), e, int_ctype(w), w)


def int_lit(v, t):
    if t.k == 'ptr':
        return '((void*)%d)' % v
    w = t.a
    if w == 1:
        return '((_Bool)%d)' % (v & 1)
    v &= (1 << w) - 1
    if w <= 32:
        return '((%s)%dU)' % (int_ctype(w), v)
    if w <= 64:
        return '((%s)%dULL)' % (int_ctype(w), v)
    hi, lo = v >> 64, v & ((1 << 64) - 1)
    return '((((unsigned __int128)%dULL) << 64) | %dULL)' % (hi, lo)


class FuncEmitter:
    def __init__(self, em, f):
        self.em = em
        self.f = f
        self.types = {}   # local name -> T
        self.lines = []
        self.tmpc = 0
        self.infer_types()

    def lv(self, name):
        return 'v_' + cid(name)

    def lab(self, name):
        return 'L_' + cid(name)

    def infer_types(self):
        em = self.em
        for (t, nm) in self.f.params:
            self.types[nm] = t
        for lab, ins in self.f.blocks:
            for i in ins:
                if i.res is None:
                    continue
                if i.op == 'gep':
                    i.t = em.gep_type(i.a[0], i.a[2])
                elif i.op == 'extractvalue':
                    t = i.a[0].t
                    for ix in i.a[1]:
                        t = em.elem_type(t, ix)
                    i.t = t
                self.types[i.res] = i.t

    def emit(self):
        em = self.em
        f = self.f
        L = self.lines
        static = 'static ' if ('internal' in f.linkage or 'private' in f.linkage) else ''
        L.append('%s%s {' % (static, em.proto(f, with_names=True)))
        # declarations
        params = set(nm for t, nm in f.params)
        body = []
        self.body = body
        blocks = self.rpo(f.blocks)
        labels = [lab if lab is not None else f.entry_implicit for lab, _ in blocks]
        self.labelset = set(labels)
        # phi map: target label -> list of (res, type, {pred: val})
        self.phis = {}
        for (lab, ins), L0 in zip(blocks, labels):
            for i in ins:
                if i.op == 'phi':
                    self.phis.setdefault(L0, []).append(i)
        self.allocas = []
        # loops with several back-edges get one latch: CBMC treats every backward goto as a loop of its own and does
        # not merge paths across backward gotos, so k back-edges to one header explode as k^iterations
        pos = {L0: n for n, L0 in enumerate(labels)}
        self.pos = pos
        backs = {}
        for (lab, ins), L0 in zip(blocks, labels):
            t = ins[-1]
            succ = []
            if t.op == 'br':
                succ = [t.a[0]]
            elif t.op == 'condbr':
                succ = [t.a[1], t.a[2]]
            elif t.op == 'switch':
                succ = [t.a[1]] + [l for _, l in t.a[2]]
            elif t.op == 'invoke':
                succ = [t.a['normal'], t.a['unwind']]
            for sx in succ:
                if sx in pos and pos[sx] <= pos[L0]:
                    backs.setdefault(sx, []).append(L0)
        self.latch_for = {}
        latch_after = {}
        for h, srcs in backs.items():
            if len(srcs) + sum(1 for x in srcs if False) >= 2 or len(set(srcs)) != len(srcs):
                self.latch_for[h] = 'LATCH_' + cid(h)
                last = max(srcs, key=lambda x: pos[x])
                latch_after.setdefault(last, []).append(h)
        for (lab, ins), L0 in zip(blocks, labels):
            body.append('%s: ;' % self.lab(L0))
            self.cur = L0
            for i in ins:
                self.instr(i)
            for h in latch_after.get(L0, []):
                body.append('%s: goto %s;' % (self.latch_for[h], self.lab(h)))
        for nm, t in self.types.items():
            if nm in params:
                continue
            if t.k == 'void':
                continue
            L.append('  %s %s;' % (em.ct(t), self.lv(nm)))
        L.extend('  ' + a for a in self.allocas)
        L.extend('  ' + b for b in body)
        L.append('}')
        return '\n'.join(L)

    def rpo(self, blocks):
        """blocks in reverse post-order of the CFG: only genuine loop back-edges become backward gotos
        (CBMC treats every backward goto as a loop and does not merge paths across it)"""
        f = self.f
        name = lambda lab: lab if lab is not None else f.entry_implicit
        bymap = {name(lab): (lab, ins) for lab, ins in blocks}
        def succs(ins):
            t = ins[-1]
            out = []
            if t.op == 'br':
                out = [t.a[0]]
            elif t.op == 'condbr':
                out = [t.a[1], t.a[2]]
            elif t.op == 'switch':
                out = [t.a[1]] + [l for _, l in t.a[2]]
            elif t.op == 'invoke':
                out = [t.a['normal'], t.a['unwind']]
            return out
        entry = name(blocks[0][0])
        seen = set()
        post = []
        stack = [(entry, iter(succs(bymap[entry][1])))]
        seen.add(entry)
        while stack:
            n, it = stack[-1]
            adv = False
            for sname in it:
                if sname not in seen and sname in bymap:
                    seen.add(sname)
                    stack.append((sname, iter(succs(bymap[sname][1]))))
                    adv = True
                    break
            if not adv:
                post.append(n)
                stack.pop()
        order = list(reversed(post))
        return [bymap[n] for n in order]

    def is_initialiser(self):
        n = self.f.name
        return n.startswith(('_GLOBAL__sub_I', '__cxx_global_var_init', '_GLOBAL__I'))

    def dummy_ret(self):
        t = self.f.ret
        if t.k == 'void':
            return 'return;'
        if t.k in ('int', 'ptr', 'fp'):
            return 'return %s;' % self.em.zero(t)
        return 'return (%s){0};' % self.em.ct(t)

    def goto(self, target):
        """code for an edge cur -> target incl. phi copies"""
        phis = self.phis.get(target)
        dest = self.lab(target)
        if target in getattr(self, 'latch_for', {}) and self.pos[target] <= self.pos[self.cur]:
            dest = self.latch_for[target]
        if not phis:
            return 'goto %s;' % dest
        parts = []
        tmps = []
        for n, i in enumerate(phis):
            val = None
            for v, l in i.a:
                if l == self.cur or (l not in self.labelset and self.cur == self.f.entry_implicit):
                    val = v
                    break
            if val is None:
                raise ValueError('phi %s has no incoming for %s in %s' % (i.res, self.cur, self.f.name))
            if val.k == 'undef':
                continue
            self.tmpc += 1
            tn = '__phi%d' % self.tmpc
            parts.append('%s %s = %s;' % (self.em.ct(i.t), tn, self.em.val(val, self)))
            tmps.append('%s = %s;' % (self.lv(i.res), tn))
        return '{ %s %s goto %s; }' % (' '.join(parts), ' '.join(tmps), dest)

    def ubassert(self, conds, what):
        if self.em.opts.ub:
            for c in conds:
                self.body.append('__CPROVER_assert(%s, "UB: %s in %s");' % (c, what, self.f.name))

    def instr(self, i):
        em = self.em
        B = self.body
        op = i.op
        a = i.a
        if op in BIN_OPS:
            e, ub = em.binop(op, a[0], a[1], i.t, i.flags, self)
            if op in ('udiv', 'urem', 'sdiv', 'srem') and not em.opts.ub and ub:
                # a zero divisor traps (SIGFPE) whatever the optimisation level: asserted in every unit, not only in the UB-flavoured ones
                # (LLVM does not speculate divisions whose divisor may be zero, so -O1 IR divides only where the source does)
                self.body.append('__CPROVER_assert(%s, "division by zero (process dies with SIGFPE instead of failing by exception) in %s");' % (ub[0], self.f.name))
            self.ubassert(ub, op + ' ' + ' '.join(sorted(i.flags)))
            B.append('%s = %s;' % (self.lv(i.res), e))
        elif op == 'icmp':
            B.append('%s = %s;' % (self.lv(i.res), em.icmp(a[0], a[1], a[2], self)))
        elif op == 'cast':
            B.append('%s = %s;' % (self.lv(i.res), em.cast(a[0], a[1], i.t, self)))
        elif op == 'gep':
            B.append('%s = %s;' % (self.lv(i.res), em.gep(a[0], a[1], a[2], self)))
        elif op == 'load':
            if i.t.k == 'int' and i.t.a == 1:
                B.append('%s = (_Bool)(*(u8*)%s & 1);' % (self.lv(i.res), em.val(a[0], self)))
            else:
                if em.opts.footprint:
                    B.append('__fp_load((void*)%s);' % em.val(a[0], self))
                ta = self.typed_leaf(a[0], i.t)
                if ta is not None:
                    B.append('%s = (%s)%s;' % (self.lv(i.res), em.ct(i.t), ta[0]))
                else:
                    B.append('%s = *%s;' % (self.lv(i.res), em.val(a[0], self)))
        elif op == 'store':
            if em.opts.footprint and not self.is_initialiser():
                B.append('__fp_store((void*)%s);' % em.val(a[1], self))
            ta = self.typed_leaf(a[1], a[0].t)
            if ta is not None:
                B.append('%s = (%s)%s;' % (ta[0], em.ct(ta[1]), em.val(a[0], self)))
            else:
                B.append('*%s = %s;' % (em.val(a[1], self), em.val(a[0], self)))
        elif op == 'alloca':
            t, cnt = a
            if cnt is None or (cnt.k == 'int'):
                n = 1 if cnt is None else cnt.d
                an = 'a_' + cid(i.res)
                if n == 1:
                    self.allocas.append('%s %s;' % (em.ct(t), an))
                    B.append('%s = &%s;' % (self.lv(i.res), an))
                else:
                    self.allocas.append('%s %s[%d];' % (em.ct(t), an, n))
                    B.append('%s = &%s[0];' % (self.lv(i.res), an))
            else:
                sz = em.size_align(t)[0]
                B.append('%s = (%s)__verif_alloca((u64)%s * %dULL);' % (self.lv(i.res), em.ct(i.t), em.val(cnt, self), sz))
        elif op == 'phi':
            pass
        elif op == 'select':
            B.append('%s = (%s ? %s : %s);' % (self.lv(i.res), em.val(a[0], self), em.val(a[1], self), em.val(a[2], self)))
        elif op == 'br':
            B.append(self.goto(a[0]))
        elif op == 'condbr':
            B.append('if (%s) %s else %s' % (em.val(a[0], self), self.goto(a[1]), self.goto(a[2])))
        elif op == 'switch':
            v, dflt, cases = a
            s = 'switch (%s) { ' % em.val(v, self)
            for cv_, lab in cases:
                s += 'case %s: %s ' % (em.val(cv_, self), self.goto(lab))
            s += 'default: %s }' % self.goto(dflt)
            B.append(s)
        elif op == 'ret':
            if a[0] is None:
                B.append('return;')
            else:
                B.append('return %s;' % em.val(a[0], self))
        elif op == 'unreachable':
            B.append('__verif_unreachable(); %s' % self.dummy_ret())
        elif op in ('call', 'invoke'):
            self.call(i)
        elif op == 'landingpad':
            self.landingpad(i)
        elif op == 'resume':
            B.append('__exc_active = 1; %s' % self.dummy_ret())
        elif op == 'extractvalue':
            e = em.val(a[0], self)
            t = a[0].t
            for ix in a[1]:
                tt = em.m.types[t.a] if t.k == 'named' else t
                e = '%s.f%d' % (e, ix) if tt.k == 'lit' else '%s.a[%d]' % (e, ix)
                t = em.elem_type(t, ix)
            B.append('%s = %s;' % (self.lv(i.res), e))
        elif op == 'insertvalue':
            B.append('%s = %s;' % (self.lv(i.res), em.val(a[0], self)) if a[0].k != 'undef' else '/* undef agg */')
            e = self.lv(i.res)
            t = i.t
            for ix in a[2]:
                tt = em.m.types[t.a] if t.k == 'named' else t
                e = '%s.f%d' % (e, ix) if tt.k == 'lit' else '%s.a[%d]' % (e, ix)
                t = em.elem_type(t, ix)
            B.append('%s = %s;' % (e, em.val(a[1], self)))
        elif op == 'freeze':
            B.append('%s = %s;' % (self.lv(i.res), em.val(a[0], self)))
        elif op == 'nop':
            pass
        else:
            raise NotImplementedError(op)

    # ---- calls
    def may_throw(self, i, callee_name):
        em = self.em
        attrs = set()
        for a in i.a['attrs']:
            attrs |= em.m.attrs.get(a, {a})
        if 'nounwind' in attrs:
            return False
        if callee_name is not None:
            tgt = em.redirect.get(callee_name, callee_name)
            f = em.m.funcs.get(tgt)
            if f is not None and 'nounwind' in f.attrs and tgt not in ('__cxa_throw', '__cxa_rethrow'):
                return False
        return True

    def after_call(self, i, callee_name):
        B = self.body
        if i.op == 'invoke':
            B.append('if (__exc_active) %s else %s' % (self.goto(i.a['unwind']), self.goto(i.a['normal'])))
        elif self.may_throw(i, callee_name):
            B.append('if (__exc_active) %s' % self.dummy_ret())

    def call(self, i):
        em = self.em
        B = self.body
        a = i.a
        callee = a['callee']
        base = strip_casts(callee)
        args = a['args']
        res = (self.lv(i.res) + ' = ') if (i.res is not None and i.t.k != 'void') else ''
        if base.k == 'global':
            name = base.d
            if name.startswith('llvm.'):
                self.intrinsic(i, name, args, res)
                if i.op == 'invoke':
                    B.append(self.goto(i.a['normal']))
                return
            if self.special_call(i, name, args, res):
                if i.op == 'invoke' and name not in ('__cxa_throw', '__cxa_rethrow'):
                    B.append(self.goto(i.a['normal']))
                return
            if name in ('_Znwm', '_Znam') and res and len(args) == 1 and args[0].k == 'int':
                # operator new(sizeof(T)) whose result is cast to T*: allocate a *typed* object.  CBMC types a heap object by the
                # sizeof expression handed to malloc; an untyped one is a byte array, and every field access of the object
                # becomes a byte extract/update over that array (measured: 187M clauses for one 2 KB object).
                tt = None
                for d in self.defs().values():
                    if d.op == 'cast' and d.a[0] == 'bitcast' and d.a[1].k == 'local' and d.a[1].d == i.res and d.t.k == 'ptr' and d.t.a.k == 'named':
                        try:
                            if em.size_align(d.t.a)[0] == int(args[0].d):
                                tt = d.t.a
                                break
                        except ValueError:
                            pass
                if tt is not None:
                    B.append('{ _Static_assert(sizeof(%s) == %d, "typed new: layout"); u8 *__p = (u8*)malloc(sizeof(%s)); __CPROVER_assume(__p != 0); %s__p; }'
                             % (em.ct(tt), int(args[0].d), em.ct(tt), res))
                    self.after_call(i, name)
                    return
            tname = em.redirect.get(name, name)
            if name in em.redirect_self and self.f.name == name:
                tname = em.redirect_self[name]
            if name in em.redirect_cdns and self.f.name.startswith(('_ZN4CDNS', '_ZNK4CDNS', '_ZZN4CDNS', '_ZZNK4CDNS')):    # members of CDNS classes and the lambdas defined inside them
                tname = em.redirect_cdns[name]
            f = em.m.funcs.get(tname) or em.m.funcs.get(name)
            argv = []
            for k, x in enumerate(args):
                s = em.val(x, self)
                if f is not None and k < len(f.params) and f.params[k][0] != x.t:
                    s = '((%s)%s)' % (em.ct(f.params[k][0]), s)
                argv.append(s)
            cname = em.own_name(tname)
            call = '%s(%s)' % (cname, ', '.join(argv))
            if f is not None and res and f.ret != i.t:
                call = '((%s)%s)' % (em.ct(i.t), call)
            B.append('%s%s;' % (res, call))
            self.after_call(i, name)
            return
        # indirect call
        fp = em.val(callee, self)
        fnty = callee.t.a if callee.t.k == 'ptr' and callee.t.a.k == 'func' and a['fnty'] is not None else T('func', i.t, tuple(x.t for x in args), False)
        if callee.k == 'local':
            lt = self.types[callee.d]
            if lt.k == 'ptr' and lt.a.k == 'func':
                fnty = lt.a
        cands = []
        pool = sorted(em.addr_taken)
        slot = self.vtable_slot(callee)
        if slot is not None:
            # virtual call through slot k of the object's vtable: only functions stored at that slot of some vtable
            vs = em.vtable_slot_funcs(slot)
            if vs:
                pool = sorted(vs)
        this_t = args[0].t.a if (slot is not None and args and args[0].t.k == 'ptr' and args[0].t.a.k == 'named') else None
        for name in pool:
            f = em.m.funcs[name]
            if len(f.params) != len(args) and not f.vararg:
                continue
            if this_t is not None and f.params and f.params[0][0].k == 'ptr' and f.params[0][0].a.k == 'named':
                # virtual call: the target's class is the static class of `this`, one of its bases or one of its derived
                # classes (single inheritance: the base subobject is the first field)
                if not em.related_classes(this_t.a, f.params[0][0].a.a):
                    continue
                # harness-declared restriction (sound: a target outside the list trips the 'unknown target' assertion)
                skip = False
                for recv_re, fn_re in (em.opts.vcall or []):
                    if re.search(recv_re, this_t.a) and not re.search(fn_re, name):
                        skip = True
                if skip:
                    continue
            ok = kind_compat(f.ret, i.t)
            for (pt, _), x in zip(f.params, args):
                ok = ok and kind_compat(pt, x.t)
            if ok:
                cands.append(f)
        self.tmpc += 1
        fpn = '__fp%d' % self.tmpc
        B.append('{ void *%s = (void*)%s;' % (fpn, fp))
        first = True
        for f in cands:
            argv = []
            for (pt, _), x in zip(f.params, args):
                s = em.val(x, self)
                if pt != x.t:
                    s = '((%s)%s)' % (em.ct(pt), s)
                argv.append(s)
            call = '%s(%s)' % (em.own_name(f.name), ', '.join(argv))
            if res and f.ret != i.t:
                call = '((%s)%s)' % (em.ct(i.t), call)
            B.append('  %sif (%s == (void*)&%s) { %s%s; }' % ('' if first else 'else ', fpn, em.own_name(f.name), res, call))
            first = False
        B.append('  %s{ __CPROVER_assert(0, "indirect call: unknown target in %s"); __CPROVER_assume(0); } }' % ('' if first else 'else ', self.f.name))
        self.after_call(i, None)

    def special_call(self, i, name, args, res):
        em = self.em
        B = self.body
        v = lambda k: em.val(args[k], self)
        if name == '__verif_assert':
            msg = 'assertion'
            s = strip_casts(args[1])
            if s.k == 'cexpr' and s.d[0] == 'gep':
                s = s.d[2]
            if s.k == 'global':
                g = em.m.globals.get(s.d)
                if g and g['init'] is not None and g['init'].k == 'cstr':
                    msg = bytes(g['init'].d[:-1]).decode('latin1').replace('\\', '/').replace('"', "'")
            B.append('__CPROVER_assert(%s, "%s");' % (v(0), msg))
            return True
        if name == '__verif_assume':
            B.append('__CPROVER_assume(%s);' % v(0))
            return True
        if name == '__cxa_throw':
            B.append('__exc_throw((void*)%s, %d);' % (v(0), em.ti_id(args[1])))
            B.append(self.throw_edge(i))
            return True
        if name == '__cxa_rethrow':
            B.append('__exc_active = 1;')
            B.append(self.throw_edge(i))
            return True
        if name == '__cxa_begin_catch':
            B.append('%s(u8*)__exc_begin_catch();' % res)
            return True
        if name == '__cxa_end_catch':
            B.append('__exc_end_catch();')
            return True
        if name == '__cxa_allocate_exception':
            B.append('%s(u8*)__exc_alloc(%s);' % (res, v(0)))
            return True
        if name == '__cxa_free_exception':
            return True
        if name in ('__cxa_atexit',):
            if res:
                B.append('%s0;' % res)
            return True
        if name in ('_ZSt9terminatev', '__clang_call_terminate'):
            B.append('__verif_terminate();')
            return True
        if name == '__cxa_pure_virtual':
            B.append('__verif_terminate();')
            return True
        return False

    def vtable_slot(self, callee):
        """callee = load (gep (load vptr), k)  or  load (load vptr)  -> k"""
        if callee.k != 'local':
            return None
        d = self.defs().get(callee.d)
        if d is None or d.op != 'load':
            return None
        p = d.a[0]
        if p.k != 'local':
            return None
        g = self.defs().get(p.d)
        if g is None:
            return None
        if g.op == 'load':
            return 0
        if g.op == 'gep' and len(g.a[2]) == 1 and g.a[2][0].k == 'int' and g.a[1].k == 'local':
            b = self.defs().get(g.a[1].d)
            if b is not None and b.op == 'load':
                return g.a[2][0].d
        return None

    def throw_edge(self, i):
        if i.op == 'invoke':
            return self.goto(i.a['unwind'])
        return self.dummy_ret()

    def landingpad(self, i):
        em = self.em
        B = self.body
        cleanup, clauses = i.a
        r = self.lv(i.res)
        B.append('%s.f0 = (u8*)__exc_obj; %s.f1 = 0;' % (r, r))
        conds = []
        for kind, tv in clauses:
            if kind != 'catch':
                continue  # filters (exception specifications) not modelled
            tid = em.ti_id(tv)
            if tid == 0:
                B.append('if (%s.f1 == 0) %s.f1 = 0x7fffffff;' % (r, r))  # catch-all
                conds.append('1')
            else:
                B.append('if (%s.f1 == 0 && __ti_isa(__exc_ti, %d)) %s.f1 = %d;' % (r, tid, r, tid))
        if not cleanup:
            B.append('if (%s.f1 == 0) { %s }' % (r, self.dummy_ret()))
        B.append('__exc_active = 0;  /* in flight: handled by the code of this pad until resume */')

    def intrinsic(self, i, name, args, res):
        em = self.em
        B = self.body
        v = lambda k: em.val(args[k], self)
        if name.startswith(('llvm.lifetime.', 'llvm.dbg.', 'llvm.assume', 'llvm.experimental.noalias', 'llvm.invariant.',
                            'llvm.stackrestore', 'llvm.donothing', 'llvm.var.annotation', 'llvm.prefetch')):
            return
        if name == 'llvm.stacksave':
            B.append('%s(u8*)0;' % res)
            return
        if name.startswith('llvm.memcpy.') or name.startswith('llvm.memmove.'):
            d, s, n = args[0], args[1], args[2]
            db, sb = strip_casts(d), strip_casts(s)
            # struct-assignment optimisation: constant length == sizeof(pointee) on both sides
            if n.k == 'int':
                dt = self.ptr_origin(d)
                st = self.ptr_origin(s)
                if dt is not None and st is not None and dt[1] == st[1] and dt[1].k in ('named', 'lit', 'arr'):
                    try:
                        if em.size_align(dt[1])[0] == n.d:
                            if em.opts.footprint and not self.is_initialiser():
                                B.append('__fp_store((void*)%s);' % dt[0])
                            B.append('*%s = *%s;' % (dt[0], st[0]))
                            return
                    except ValueError:
                        pass
            fn = '__v_memmove' if 'memmove' in name else '__v_memcpy'
            if n.k == 'int':
                fn += '_c'     # constant length: CBMC's built-in model, no loop to unwind
            if em.opts.footprint and not self.is_initialiser():
                B.append('__fp_store((void*)%s);' % v(0))
            B.append('%s((u8*)%s, (const u8*)%s, (u64)%s);' % (fn, v(0), v(1), v(2)))
            return
        if name.startswith('llvm.memset.'):
            if em.opts.footprint and not self.is_initialiser():
                B.append('__fp_store((void*)%s);' % v(0))
            d, n = args[0], args[2]
            if n.k == 'int' and args[1].k == 'int' and args[1].d == 0:
                dt = self.ptr_origin(d)
                if dt is not None and dt[1].k in ('named', 'lit', 'arr'):
                    try:
                        if em.size_align(dt[1])[0] == n.d:
                            B.append('*%s = (%s){0};' % (dt[0], em.ct(dt[1])))
                            return
                    except ValueError:
                        pass
            B.append('__v_memset%s((u8*)%s, (u8)%s, (u64)%s);' % ('_c' if n.k == 'int' else '', v(0), v(1), v(2)))
            return
        mm = re.match(r'llvm\.(u|s)(add|sub|mul)\.with\.overflow\.i(\d+)', name)
        if mm:
            sg, op, w = mm.group(1), mm.group(2), int(mm.group(3))
            r = self.lv(i.res)
            ct = int_ctype(w)
            if sg == 'u':
                B.append('{ %s __t; %s.f1 = __builtin_%s_overflow(%s, %s, &__t); %s.f0 = __t; }' % (ct, r, op, v(0), v(1), r))
            else:
                sct = sint_ctype(w)
                B.append('{ %s __t; %s.f1 = __builtin_%s_overflow((%s)%s, (%s)%s, &__t); %s.f0 = (%s)__t; }' % (sct, r, op, sct, v(0), sct, v(1), r, ct))
            return
        mm = re.match(r'llvm\.(umin|umax|smin|smax)\.i(\d+)', name)
        if mm:
            w = int(mm.group(2))
            A, Bv = v(0), v(1)
            if mm.group(1)[0] == 's':
                ca, cb = em.sx(A, w), em.sx(Bv, w)
            else:
                ca, cb = A, Bv
            sym = '<' if mm.group(1).endswith('min') else '>'
            B.append('%s(%s %s %s ? %s : %s);' % (res, ca, sym, cb, A, Bv))
            return
        mm = re.match(r'llvm\.abs\.i(\d+)', name)
        if mm:
            w = int(mm.group(1))
            B.append('%s(%s < 0 ? (%s)(0 - %s) : %s);' % (res, em.sx(v(0), w), int_ctype(w), v(0), v(0)))
            return
        mm = re.match(r'llvm\.bswap\.i(\d+)', name)
        if mm:
            B.append('%s__builtin_bswap%s(%s);' % (res, mm.group(1), v(0)))
            return
        mm = re.match(r'llvm\.(fshl|fshr)\.i(\d+)', name)
        if mm:
            w = int(mm.group(2))
            ct = int_ctype(w)
            sh = '(%s %% %d)' % (v(2), w)
            if mm.group(1) == 'fshl':
                B.append('%s(%s)(%s == 0 ? %s : ((%s << %s) | (%s >> (%d - %s))));' % (res, ct, sh, v(0), v(0), sh, v(1), w, sh))
            else:
                B.append('%s(%s)(%s == 0 ? %s : ((%s << (%d - %s)) | (%s >> %s)));' % (res, ct, sh, v(1), v(0), w, sh, v(1), sh))
            return
        if name.startswith('llvm.x86.sse42.crc32.'):
            bits = {'64.64': 64, '32.32': 32, '32.16': 16, '32.8': 8}[name[len('llvm.x86.sse42.crc32.'):]]
            B.append('%s__crc32c_%d(%s, %s);' % (res, bits, v(0), v(1)))
            return
        if name == 'llvm.eh.typeid.for':
            B.append('%s%d;' % (res, em.ti_id(args[0])))
            return
        if name == 'llvm.trap':
            B.append('__verif_terminate();')
            return
        if name.startswith('llvm.expect.'):
            B.append('%s%s;' % (res, v(0)))
            return
        if name.startswith('llvm.objectsize.'):
            B.append('%s(%s)~(%s)0;' % (res, int_ctype(i.t.a), int_ctype(i.t.a)))
            return
        if name.startswith('llvm.is.constant.'):
            B.append('%s0;' % res)
            return
        if name.startswith('llvm.ctpop.'):
            B.append('%s__builtin_popcountll(%s);' % (res, v(0)))
            return
        raise NotImplementedError('intrinsic ' + name)

    def typed_leaf(self, ptr, acc_t):
        """access of scalar type acc_t through `ptr` that is a bitcast of a pointer to an aggregate: if the aggregate's
        first leaf field (offset 0) is a scalar of the same kind and size, return (lvalue expression, leaf type) so that
        the access is typed (CBMC keeps typed accesses to struct fields precise; type-punned ones become byte updates
        that e.g. hide a constant vptr)"""
        em = self.em
        if acc_t.k not in ('ptr', 'int'):
            return None
        org = None
        if ptr.k == 'cexpr' and ptr.d[0] == 'cast' and ptr.d[1] == 'bitcast' and ptr.d[2].t.k == 'ptr':
            org = (em.val(ptr.d[2], self), ptr.d[2].t.a)
        elif ptr.k == 'local':
            d = self.defs().get(ptr.d)
            if d is not None and d.op == 'cast' and d.a[0] == 'bitcast' and d.a[1].t.k == 'ptr' and d.a[1].k in ('local', 'global'):
                org = (em.val(d.a[1], self), d.a[1].t.a)
        if org is None:
            return None
        e, t = '(*%s)' % org[0], org[1]
        depth = 0
        while True:
            tt = em.m.types.get(t.a) if t.k == 'named' else t
            if tt is None:
                return None
            if tt.k == 'lit':
                if not tt.b:
                    return None
                e, t = e + '.f0', tt.b[0]
            elif tt.k == 'arr':
                if tt.a == 0:
                    return None
                e, t = e + '.a[0]', tt.b
            else:
                break
            depth += 1
            if depth > 12:
                return None
        if depth == 0:
            return None
        if t.k == 'ptr' and acc_t.k == 'ptr':
            return (e, t)
        if t.k == 'int' and acc_t.k == 'int' and t.a == acc_t.a and t.a != 1:
            return (e, t)
        return None

    def ptr_origin(self, v):
        """if v is (a bitcast of) a typed pointer, return (C expr of original pointer, pointee type)"""
        em = self.em
        if v.k == 'cexpr' and v.d[0] == 'cast' and v.d[1] == 'bitcast':
            inner = v.d[2]
            if inner.t.k == 'ptr':
                return (em.val(inner, self), inner.t.a)
        if v.k == 'local':
            # find defining instruction
            d = self.defs().get(v.d)
            if d is not None and d.op == 'cast' and d.a[0] == 'bitcast' and d.a[1].t.k == 'ptr' and d.a[1].k in ('local', 'global'):
                return (em.val(d.a[1], self), d.a[1].t.a)
            t = self.types.get(v.d)
            if t is not None and t.k == 'ptr' and t.a.k in ('named', 'lit', 'arr'):
                return (em.val(v, self), t.a)
        if v.k == 'global':
            g = em.m.globals.get(v.d)
            if g is not None and g['alias'] is None:
                return (em.val(v, self), g['type'])
        return None

    def defs(self):
        if not hasattr(self, '_defs'):
            self._defs = {}
            for lab, ins in self.f.blocks:
                for i in ins:
                    if i.res is not None:
                        self._defs[i.res] = i
        return self._defs


def kind_compat(a, b):
    if a.k != b.k:
        return False
    if a.k == 'int':
        return a.a == b.a
    if a.k == 'ptr':
        return True
    if a.k == 'void':
        return True
    return a == b


def main():
    ap = argparse.ArgumentParser()
    ap.add_argument('input')
    ap.add_argument('-o', '--output', required=True)
    ap.add_argument('--ub', action='store_true')
    ap.add_argument('--footprint', action='store_true')
    ap.add_argument('--redirect', action='append', type=lambda s: tuple(s.split('=', 1)))
    ap.add_argument('--vcall', action='append', type=lambda s: tuple(s.split('=', 1)),
                    help='RECV_RE=FUNC_RE: virtual calls on receivers whose static class matches RECV_RE may only target functions matching FUNC_RE')
    opts = ap.parse_args()
    text = open(opts.input).read()
    m = parse_module(text)
    em = Emitter(m, opts)
    c = em.emit()
    with open(opts.output, 'w') as f:
        f.write(c)


if __name__ == '__main__':
    sys.setrecursionlimit(10000)
    main()
