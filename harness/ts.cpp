// ts.cpp -- timestamp arithmetic kernels (U3) for the SMT route (tools/ir2smt.py): C17 T1-T3, C03 (UB)
#include "verif_api.cpp"
#include "timestamp.cpp"
#include "cdns_encoder.cpp"   // definitions needed only to link the native validation build
#include "cdns_decoder.cpp"
using namespace CDNS;
extern "C" __attribute__((noinline)) bool ts_lt(const Timestamp* a, const Timestamp* b) { return *a < *b; }
extern "C" __attribute__((noinline)) bool ts_le(const Timestamp* a, const Timestamp* b) { return *a <= *b; }
