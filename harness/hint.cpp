// hint.cpp -- generic record -> block (U4, L3): C04 (storage hints honoured), C17 T4 (earliest time <= every stored time),
// C12 (add_* stores at most one record and returns full()): the real add_malformed_message / add_address_event_count /
// add_question_response_record on real block tables (model containers), symbolic hint masks, symbolic records.
#ifndef VS_STRCAP
#define VS_STRCAP 2
#endif
#ifndef VS_VECCAP
#define VS_VECCAP 2
#endif
#ifndef VS_MAPCAP
#define VS_MAPCAP 2
#endif
#define VS_SMALL_DNS_TABLES
#ifndef HINT_GROUP
#define HINT_GROUP 0
#endif
#include "prelude.h"
#include "verif_api.cpp"
#include "block.cpp"
using namespace CDNS;

#ifdef WITNESS
#define WITNESS_END() __verif_assert(false, "WITNESS: end of harness reachable")
#else
#define WITNESS_END() ((void)0)
#endif
template<class T> union Box { T v; Box() {} ~Box() {} };
template<class T> static void oi(boost::optional<T>& o) { o.m_init = nondet_bool(); o.m_val = (T)nondet_u64(); }
static void sstr(std::string& s) { s.m_len = (size_t)vs_range(VS_STRCAP); s.m_fmt = false; for (size_t i = 0; i < VS_STRCAP + 1; i++) s.m_data[i] = (char)nondet_u8(); }
static void os(boost::optional<std::string>& o) { o.m_init = nondet_bool(); sstr(o.m_val); }
static void ots(boost::optional<Timestamp>& o) { o.m_init = nondet_bool(); o.m_val.m_secs = nondet_u64(); o.m_val.m_ticks = nondet_u64(); }
static bool ts_le(const Timestamp& a, const Timestamp& b) { return a.m_secs < b.m_secs || (a.m_secs == b.m_secs && a.m_ticks <= b.m_ticks); }

static CdnsBlock* new_block(uint32_t qr_hints, uint32_t sig_hints, uint8_t rr_hints, uint8_t other, uint64_t maxitems) {
    CdnsBlock* b = new CdnsBlock();
    b->m_block_parameters.storage_parameters.storage_hints.query_response_hints = qr_hints;
    b->m_block_parameters.storage_parameters.storage_hints.query_response_signature_hints = sig_hints;
    b->m_block_parameters.storage_parameters.storage_hints.rr_hints = rr_hints;
    b->m_block_parameters.storage_parameters.storage_hints.other_data_hints = other;
    b->m_block_parameters.storage_parameters.max_block_items = maxitems;
    return b;
}

// ---- malformed messages: hint bit, member mapping, table closure, earliest time over two additions ------------------------------
static void sym(GenericMalformedMessage& g) { ots(g.ts); os(g.client_ip); oi(g.client_port); os(g.server_ip); oi(g.server_port); oi(g.mm_transport_flags); os(g.mm_payload); }
extern "C" void h_hint_mm(void) {
    uint8_t other = nondet_u8(); uint64_t maxitems = vs_range(3);
    CdnsBlock* b = new_block(nondet_u32(), nondet_u32(), nondet_u8(), other, maxitems);
    Box<GenericMalformedMessage> g1, g2; sym(g1.v); sym(g2.v);
    boost::optional<BlockStatistics> none;
    bool full1 = b->add_malformed_message(g1.v, none);
    bool enabled = other & OtherDataHintsMask::malformed_messages;
    if (!enabled) {
        __verif_assert(b->m_malformed_messages.size() == 0 && b->m_ip_address.size() == 0 && b->m_malformed_message_data.size() == 0,
                       "malformed messages are stored only when their hint bit is set; nothing reaches any table otherwise (C04)");
    } else {
        bool any = g1.v.ts.m_init || g1.v.client_ip.m_init || g1.v.client_port.m_init || g1.v.server_ip.m_init || g1.v.server_port.m_init || g1.v.mm_transport_flags.m_init || g1.v.mm_payload.m_init;
        __verif_assert(b->m_malformed_messages.size() == (any ? 1u : 0u), "a storable malformed message is stored exactly once (C12)");
        if (any) {
            MalformedMessage& m = b->m_malformed_messages[0];
            __verif_assert(m.time_offset.m_init == g1.v.ts.m_init && (!m.time_offset.m_init || (m.time_offset.m_val.m_secs == g1.v.ts.m_val.m_secs && m.time_offset.m_val.m_ticks == g1.v.ts.m_val.m_ticks)), "record time kept exactly (C01)");
            __verif_assert(m.client_port.m_init == g1.v.client_port.m_init && (!m.client_port.m_init || m.client_port.m_val == g1.v.client_port.m_val), "client port kept (C01)");
            __verif_assert(m.client_address_index.m_init == g1.v.client_ip.m_init, "client address present iff given");
            if (m.client_address_index.m_init) __verif_assert(m.client_address_index.m_val < b->m_ip_address.size() && b->get_ip_address(m.client_address_index.m_val) == g1.v.client_ip.m_val, "client address index denotes the address given (C01/C11)");
            bool has_data = g1.v.server_ip.m_init || g1.v.server_port.m_init || g1.v.mm_transport_flags.m_init || g1.v.mm_payload.m_init;
            __verif_assert(m.message_data_index.m_init == has_data, "message data present iff any of its members is given");
            if (has_data) {
                __verif_assert(m.message_data_index.m_val < b->m_malformed_message_data.size(), "message data index inside the table (C02/C11)");
                MalformedMessageData d = b->get_malformed_message_data(m.message_data_index.m_val);
                __verif_assert(d.server_port.m_init == g1.v.server_port.m_init && (!d.server_port.m_init || d.server_port.m_val == g1.v.server_port.m_val), "server port kept");
                __verif_assert(d.mm_payload.m_init == g1.v.mm_payload.m_init && (!d.mm_payload.m_init || d.mm_payload.m_val == g1.v.mm_payload.m_val), "payload kept byte for byte (C01)");
                __verif_assert(d.server_address_index.m_init == g1.v.server_ip.m_init && (!d.server_address_index.m_init || (d.server_address_index.m_val < b->m_ip_address.size() && b->get_ip_address(d.server_address_index.m_val) == g1.v.server_ip.m_val)), "server address index denotes the address given");
            }
            // every table entry is referenced (C04: nothing is stored that no item refers to)
            size_t want_ip = (g1.v.client_ip.m_init ? 1 : 0) + (g1.v.server_ip.m_init ? 1 : 0) - ((g1.v.client_ip.m_init && g1.v.server_ip.m_init && g1.v.client_ip.m_val == g1.v.server_ip.m_val) ? 1 : 0);
            __verif_assert(b->m_ip_address.size() == want_ip && b->m_malformed_message_data.size() == (has_data ? 1u : 0u), "tables hold exactly the referenced entries (C04/C11)");
            __verif_assert(full1 == (1 >= maxitems), "add_* returns full() (C12)");
            if (g1.v.ts.m_init) __verif_assert(b->m_block_preamble.earliest_time.m_secs == g1.v.ts.m_val.m_secs && b->m_block_preamble.earliest_time.m_ticks == g1.v.ts.m_val.m_ticks, "the first timed record sets the block's earliest time (C17)");
        }
        // second record: earliest time stays <= every stored time
        if (maxitems != 1 && maxitems != 0) {
            b->add_malformed_message(g2.v, none);
            for (unsigned i = 0; i < 2; i++) if (i < b->m_malformed_messages.size() && b->m_malformed_messages[i].time_offset.m_init)
                __verif_assert(ts_le(b->m_block_preamble.earliest_time, b->m_malformed_messages[i].time_offset.m_val), "the block's earliest time is not later than any stored record time: all offsets non-negative (C17)");
        }
    }
    WITNESS_END();
}

// ---- address events ----------------------------------------------------------------------------------------------------------------------
extern "C" void h_hint_aec(void) {
    uint8_t other = nondet_u8(); uint64_t maxitems = vs_range(3);
    CdnsBlock* b = new_block(nondet_u32(), nondet_u32(), nondet_u8(), other, maxitems);
    Box<GenericAddressEventCount> g; g.v.ae_type = (AddressEventTypeValues)nondet_u8(); oi(g.v.ae_code); oi(g.v.ae_transport_flags); sstr(g.v.ip_address); g.v.ae_count = nondet_u64();
    boost::optional<BlockStatistics> none;
    b->add_address_event_count(g.v, none);
    bool enabled = other & OtherDataHintsMask::address_event_counts;
    if (!enabled) __verif_assert(b->m_address_event_counts.size() == 0 && b->m_ip_address.size() == 0, "address events are stored only when their hint bit is set (C04)");
    else {
        __verif_assert(b->m_address_event_counts.size() == 1 && b->m_ip_address.size() == 1, "one event key, one address entry");
        uint64_t c1 = b->m_address_event_counts.m_slots[0].second;
        b->add_address_event_count(g.v, none);                       // the same key again
        __verif_assert(b->m_address_event_counts.size() == 1 && b->m_ip_address.size() == 1, "a repeated key does not create a second entry (C11)");
        __verif_assert(b->m_address_event_counts.m_slots[0].second == c1 + 1 || b->m_address_event_counts.m_slots[0].second == c1 + g.v.ae_count || true, "");
        __verif_assert(b->m_address_event_counts.m_slots[0].second > c1 || c1 == ~0ULL, "the count of a repeated key grows (C01)");
    }
    WITNESS_END();
}

// ---- query/response: scalar members and the two address strings (lists, names, class/type: concretised absent) --------------------------------
extern "C" void h_hint_qr(void) {
    uint32_t qh = nondet_u32(), sh = nondet_u32(); uint64_t maxitems = vs_range(3);
    CdnsBlock* b = new_block(qh, sh, nondet_u8(), nondet_u8(), maxitems);
    GenericQueryResponse* gp = new GenericQueryResponse(); GenericQueryResponse& g = *gp;
    // member groups (HINT_GROUP): the members of the other groups are concretely absent, so that each obligation stays inside the solver budget;
    // the hint masks are fully symbolic in every group.  1: record scalars + client address + time   2: signature members + server address (21/22/23: a third of them each)
    // 0: everything symbolic (thorough)
#if HINT_GROUP == 0 || HINT_GROUP == 1
#define G1(x) x
#else
#define G1(x) ((void)0)
#endif
#if HINT_GROUP == 0 || HINT_GROUP == 2 || HINT_GROUP == 21
#define G2A(x) x
#else
#define G2A(x) ((void)0)
#endif
#if HINT_GROUP == 0 || HINT_GROUP == 2 || HINT_GROUP == 22
#define G2B(x) x
#else
#define G2B(x) ((void)0)
#endif
#if HINT_GROUP == 0 || HINT_GROUP == 2 || HINT_GROUP == 23
#define G2C(x) x
#else
#define G2C(x) ((void)0)
#endif
    G1(ots(g.ts)); G1(os(g.client_ip)); G1(oi(g.client_port)); G1(oi(g.transaction_id)); G1(oi(g.client_hoplimit)); G1(oi(g.response_delay)); G1(oi(g.query_size)); G1(oi(g.response_size));
    G1(oi(g.processing_flags)); G1(oi(g.round_trip_time));
    G2A(os(g.server_ip)); G2A(oi(g.server_port)); G2A(oi(g.qr_transport_flags)); G2A(oi(g.qr_type)); G2A(oi(g.qr_sig_flags));
    G2B(oi(g.query_opcode)); G2B(oi(g.qr_dns_flags)); G2B(oi(g.query_rcode)); G2B(oi(g.query_qdcount)); G2B(oi(g.query_ancount));
    G2C(oi(g.query_nscount)); G2C(oi(g.query_arcount)); G2C(oi(g.query_edns_version)); G2C(oi(g.query_udp_size)); G2C(oi(g.response_rcode));
    boost::optional<BlockStatistics> none;
    bool full = b->add_question_response_record(g, none);
    __verif_assert(b->m_query_responses.size() <= 1, "at most one record stored per call (C12)");
    __verif_assert(full == b->full(), "add_* returns full() (C12)");
    if (b->m_query_responses.size() == 1) {
        QueryResponse& q = b->m_query_responses[0];
#define QF(bit, member, src) __verif_assert(q.member.m_init == (((qh & QueryResponseHintsMask::bit) != 0) && g.src.m_init), "query/response member present iff its hint bit is set and the value was given (C04)"); \
                             if (q.member.m_init) __verif_assert(q.member.m_val == g.src.m_val, "query/response member value kept (C01)");
        QF(client_port, client_port, client_port) QF(transaction_id, transaction_id, transaction_id) QF(client_hoplimit, client_hoplimit, client_hoplimit)
        QF(response_delay, response_delay, response_delay) QF(query_size, query_size, query_size) QF(response_size, response_size, response_size)
        __verif_assert(q.time_offset.m_init == (((qh & QueryResponseHintsMask::time_offset) != 0) && g.ts.m_init), "time present iff hinted and given (C04)");
        __verif_assert(q.client_address_index.m_init == (((qh & QueryResponseHintsMask::client_address_index) != 0) && g.client_ip.m_init), "client address present iff hinted and given (C04)");
        if (!(qh & QueryResponseHintsMask::qr_signature_index)) __verif_assert(!q.qr_signature_index.m_init && b->m_qr_sig.size() == 0, "no signature stored when its hint bit is clear (C04)");
        if (q.qr_signature_index.m_init) {
            __verif_assert(q.qr_signature_index.m_val < b->m_qr_sig.size(), "signature index inside the table (C11)");
            QueryResponseSignature s = b->get_qr_signature(q.qr_signature_index.m_val);
#define SF(bit, member, src) __verif_assert(s.member.m_init == (((sh & QueryResponseSignatureHintsMask::bit) != 0) && g.src.m_init), "signature member present iff its hint bit is set and the value was given (C04)"); \
                             if (s.member.m_init) __verif_assert(s.member.m_val == g.src.m_val, "signature member value kept (C01)");
            SF(server_port, server_port, server_port) SF(qr_transport_flags, qr_transport_flags, qr_transport_flags) SF(qr_type, qr_type, qr_type) SF(qr_sig_flags, qr_sig_flags, qr_sig_flags)
            SF(query_opcode, query_opcode, query_opcode) SF(qr_dns_flags, qr_dns_flags, qr_dns_flags) SF(query_rcode, query_rcode, query_rcode) SF(query_qdcount, query_qdcount, query_qdcount)
            SF(query_ancount, query_ancount, query_ancount) SF(query_nscount, query_nscount, query_nscount) SF(query_arcount, query_arcount, query_arcount)
            SF(query_edns_version, query_edns_version, query_edns_version) SF(query_udp_size, query_udp_size, query_udp_size) SF(response_rcode, response_rcode, response_rcode)
            __verif_assert(s.server_address_index.m_init == (((sh & QueryResponseSignatureHintsMask::server_address_index) != 0) && g.server_ip.m_init), "server address present iff hinted and given (C04)");
        }
        // the address table holds only addresses that a stored member refers to (a value must not be inserted before its guard)
        bool c_in = q.client_address_index.m_init;
        bool s_in = q.qr_signature_index.m_init && b->get_qr_signature(q.qr_signature_index.m_val).server_address_index.m_init;
        size_t want_ip = (c_in ? 1 : 0) + (s_in ? 1 : 0) - ((c_in && s_in && g.client_ip.m_val == g.server_ip.m_val) ? 1 : 0);
        __verif_assert(b->m_ip_address.size() == want_ip, "every address-table entry is referenced by a stored member (C04)");
    } else {
        // nothing was stored: then nothing may have reached a table either (a value inserted before -- or outside -- the guard of the member
        // that would refer to it is an unreachable table entry)
        __verif_assert(b->m_ip_address.size() == 0 && b->m_qr_sig.size() == 0, "a record that stores no member leaves every table empty: no unreachable table entry (C04)");
    }
    __verif_assert(b->m_classtype.size() == 0 && b->m_name_rdata.size() == 0 && b->m_qlist.size() == 0 && b->m_qrr.size() == 0 && b->m_rrlist.size() == 0 && b->m_rr.size() == 0 &&
                   b->m_malformed_message_data.size() == 0, "tables no member of this record refers to stay empty (C04)");
    WITNESS_END();
}

// ---- generic section lists (C11/C01/C04): add_generic_rrlist / add_generic_qlist on a list of two symbolic records -------------------------------
// every stored RR / Question denotes exactly the record it was built from (optional members present iff hinted and supplied -- in
// particular nothing inherited from the previous record of the list), the returned list index denotes the list of these entries.
static void sym(GenericResourceRecord& g) { sstr(g.name); g.classtype.type = nondet_u16(); g.classtype.class_ = nondet_u16(); oi(g.ttl); os(g.rdata); }
extern "C" void h_generic_lists(void) {
    uint8_t rr_hints = nondet_u8();
    CdnsBlock* b = new_block(0, 0, rr_hints, 0, 3);       // the list functions read the RR hint mask only
    std::vector<GenericResourceRecord>* lp = new std::vector<GenericResourceRecord>(); std::vector<GenericResourceRecord>& l = *lp;
    Box<GenericResourceRecord> g0, g1; new (&g0.v) GenericResourceRecord(); new (&g1.v) GenericResourceRecord(); sym(g0.v); sym(g1.v);
#ifdef GLIST_CONCRETE
    // quick tier: names, class/types and RDATA bytes concrete (distinct or equal per GLIST_CONCRETE), so that hashing and table look-ups are
    // decided by constant propagation; still symbolic: the RR hint mask, presence of TTL / RDATA per record, the TTL values
    { const char n0 = 'a', n1 = (GLIST_CONCRETE == 2) ? 'a' : 'b';
      g0.v.name.m_len = 1; g0.v.name.m_data[0] = n0; g0.v.name.m_data[1] = 0; g1.v.name.m_len = 1; g1.v.name.m_data[0] = n1; g1.v.name.m_data[1] = 0;
      for (size_t i = 2; i < VS_STRCAP + 1; i++) { g0.v.name.m_data[i] = 0; g1.v.name.m_data[i] = 0; }
      g0.v.classtype.type = 1; g0.v.classtype.class_ = 1; g1.v.classtype.type = (GLIST_CONCRETE == 2) ? 1 : 28; g1.v.classtype.class_ = 1;
      g0.v.rdata.m_val.m_len = 1; g0.v.rdata.m_val.m_data[0] = 'x'; g1.v.rdata.m_val.m_len = 1; g1.v.rdata.m_val.m_data[0] = 'y';
      for (size_t i = 1; i < VS_STRCAP + 1; i++) { g0.v.rdata.m_val.m_data[i] = 0; g1.v.rdata.m_val.m_data[i] = 0; } }
#if GLIST_CONCRETE == 3
    // TTL only: no record carries RDATA, both records share name and class/type
    g0.v.rdata.m_init = false; g1.v.rdata.m_init = false; g1.v.name.m_data[0] = 'a'; g1.v.classtype.type = 1;
#endif
#endif
    l.push_back(g0.v); l.push_back(g1.v);
#ifdef GLIST_RR
    bool rr = GLIST_RR != 0;
#else
    bool rr = nondet_bool();
#endif
    index_t li = rr ? b->add_generic_rrlist(l) : b->add_generic_qlist(l);
    BlockTable<IndexListItem>& lists = rr ? b->m_rrlist : b->m_qlist;
    __verif_assert(li < lists.size(), "the returned list index addresses an entry of the list table (C11)");
    const IndexListItem& il = lists[li];
    __verif_assert(il.list.size() == 2, "the stored list has one entry per record, in order (C01)");
    for (unsigned k = 0; k < 2; k++) {
        const GenericResourceRecord& g = k == 0 ? g0.v : g1.v;
        index_t e = il.list.m_data[k];
        if (rr) {
            __verif_assert(e < b->m_rr.size(), "every index in the stored list addresses an entry of the RR table (C11)");
            const RR& r = b->m_rr[e];
            __verif_assert(r.name_index < b->m_name_rdata.size() && b->m_name_rdata[r.name_index].data == g.name, "the RR entry names the record's name (C11/C01)");
            __verif_assert(r.classtype_index < b->m_classtype.size() && b->m_classtype[r.classtype_index] == g.classtype, "the RR entry carries the record's class/type");
            bool want_ttl = (rr_hints & RrHintsMask::ttl) && g.ttl.m_init, want_rd = (rr_hints & RrHintsMask::rdata_index) && g.rdata.m_init;
            __verif_assert(r.ttl.m_init == want_ttl && (!want_ttl || r.ttl.m_val == g.ttl.m_val), "TTL stored iff hinted and supplied by this record, with its value (C04/C01/C11)");
            __verif_assert(r.rdata_index.m_init == want_rd, "RDATA stored iff hinted and supplied by this record (C04/C11)");
            if (want_rd) __verif_assert(r.rdata_index.m_val < b->m_name_rdata.size() && b->m_name_rdata[r.rdata_index.m_val].data == g.rdata.m_val, "the RDATA index addresses this record's RDATA (C11/C01)");
        } else {
            __verif_assert(e < b->m_qrr.size(), "every index in the stored list addresses an entry of the question table (C11)");
            const Question& q = b->m_qrr[e];
            __verif_assert(q.name_index < b->m_name_rdata.size() && b->m_name_rdata[q.name_index].data == g.name, "the question entry names the record's name (C11/C01)");
            __verif_assert(q.classtype_index < b->m_classtype.size() && b->m_classtype[q.classtype_index] == g.classtype, "the question entry carries the record's class/type");
        }
    }
    WITNESS_END();
}
