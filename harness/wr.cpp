// wr.cpp -- output writers (U7): C15 (final name only when complete), C16 (failures reported),
// C13 Obl-Kind (rotation to an identifier of the other kind), C14 (compressor drivers).
// Environment = nondeterministic stubs with their documented contract (DESIGN.md 3.4): ofstream as a user-space
// buffer in front of a file-system model, ::write with short counts / errors, zlib / liblzma progress.
#ifndef VS_STRCAP
#define VS_STRCAP 12
#endif
#include "verif_api.cpp"
#include "writer.cpp"
using namespace CDNS;

#ifdef WITNESS
#define WITNESS_END() __verif_assert(false, "WITNESS: end of harness reachable")
#else
#define WITNESS_END() ((void)0)
#endif

// ---- file-system + ofstream model -----------------------------------------------------------------------------
// one output file at a time per stream; names are compared as strings
struct FileModel {
    bool part_exists;         // "<name><ext>.part" exists
    bool open;                // the ofstream has it open
    uint64_t handed;          // bytes handed to the ofstream for this file (successful write() calls)
    uint64_t in_file;         // bytes that reached the file model (the OS)
    bool lost;                // some bytes handed by the application were dropped (failed write/flush/close)
    std::string part_name;    // name it was opened under
};
static FileModel g_f;
static unsigned g_renames, g_bad_renames, g_opens, g_final_incomplete, g_writes_after_rename, g_write_calls, g_closes;
static bool g_part_suffix_ok = true, g_rename_names_ok = true;
static bool g_faults_allowed;     // may the environment fail?
static bool g_any_fault;          // did it?
static uint64_t g_app_bytes;      // bytes the layer above handed to Writer::write since the last open

static bool ends_with_part(const char* s, size_t n) {
    return n >= 5 && s[n - 5] == '.' && s[n - 4] == 'p' && s[n - 3] == 'a' && s[n - 2] == 'r' && s[n - 1] == 't';
}
extern "C" bool __vs_of_open(void*, const char* name, size_t n) {
    g_opens++;
    if (g_faults_allowed && nondet_bool()) { g_any_fault = true; return false; }
    if (!ends_with_part(name, n)) g_part_suffix_ok = false;
    g_f.part_exists = true; g_f.open = true; g_f.handed = 0; g_f.in_file = 0; g_f.lost = false;
    g_f.part_name = std::string(name, n);
    return true;
}
extern "C" bool __vs_of_write(void*, const char*, size_t n) {
    g_write_calls++;
    if (!g_f.open) { g_writes_after_rename++; return false; }
    if (g_faults_allowed && nondet_bool()) { g_any_fault = true; g_f.lost = true; return false; }     // ENOSPC/EIO: bytes dropped, badbit
    g_f.handed += n;
    uint64_t pending = g_f.handed - g_f.in_file;                    // the stream buffer drains an arbitrary part
    uint64_t moved = nondet_u64(); if (moved > pending) moved = pending;
    g_f.in_file += moved;
    return true;
}
extern "C" bool __vs_of_flush(void*) {
    if (!g_f.open) return false;
    if (g_faults_allowed && nondet_bool()) { g_any_fault = true; g_f.lost = true; return false; }
    g_f.in_file = g_f.handed;
    return true;
}
extern "C" bool __vs_of_close(void*) {
    g_closes++;
    if (!g_f.open) return false;
    bool ok = true;
    if (g_f.in_file != g_f.handed) {                                  // close flushes what is still buffered
        if (g_faults_allowed && nondet_bool()) { g_any_fault = true; g_f.lost = true; ok = false; }
        else g_f.in_file = g_f.handed;
    }
    g_f.open = false;
    return ok;
}
extern "C" bool __vs_if_open(void*, const char*, size_t) { return false; }
// ::rename(old, new): the instant at which an output becomes visible under its final name
extern "C" int ext_rename(const char* from, const char* to) {
    g_renames++;
    size_t nf = 0; while (from[nf]) nf++;
    size_t nt = 0; while (to[nt]) nt++;
    if (!(g_f.part_name == from) || !ends_with_part(from, nf) || nt + 5 != nf) g_rename_names_ok = false;
    for (size_t i = 0; i < nt && i < nf; i++) if (from[i] != to[i]) g_rename_names_ok = false;
    // C15: the file must be closed and hold every byte that was handed over for it
    if (g_f.open || (!g_f.lost && g_f.in_file != g_f.handed) || !g_f.part_exists) g_bad_renames++;   // (bytes dropped by an I/O failure: C16, not C15)
    if (g_f.lost) g_final_incomplete++;
    g_f.part_exists = false;
    return 0;
}

// ---- descriptor outputs: ::write / fstat / ::close ---------------------------------------------------------------
static uint64_t g_fd_requested, g_fd_written; static bool g_fd_short; static unsigned g_fd_closes; static int g_fd_last;
extern "C" long ext_write(int fd, const void*, size_t n) {
    g_fd_last = fd; g_fd_requested += n;
    if (g_faults_allowed) {
        unsigned k = (unsigned)vs_range(2);
        if (k == 1) { g_any_fault = true; g_fd_short = true; return -1; }
        if (k == 2) { uint64_t w = nondet_u64(); __verif_assume(w < n); g_any_fault = true; g_fd_short = true; g_fd_written += w; return (long)w; }
    }
    g_fd_written += n;
    return (long)n;
}
extern "C" int ext_fstat(int fd, void*) { if (fd < 0) return -1; return nondet_bool() ? 0 : -1; }   // EBADF for negative descriptors
extern "C" int ext_close(int) { g_fd_closes++; return 0; }

static void reset_model(bool faults) {
    g_f.part_exists = false; g_f.open = false; g_f.handed = g_f.in_file = 0; g_f.lost = false;
    g_renames = g_bad_renames = g_opens = g_final_incomplete = g_writes_after_rename = g_write_calls = g_closes = 0;
    g_part_suffix_ok = g_rename_names_ok = true; g_faults_allowed = faults; g_any_fault = false; g_app_bytes = 0;
    g_fd_requested = g_fd_written = 0; g_fd_short = false; g_fd_closes = 0;
}
static void sym_name(std::string& s, size_t maxlen) {
    size_t n = (size_t)vs_range(maxlen);
    s.clear();
    for (size_t i = 0; i < maxlen; i++) if (i < n) s.push_back((char)(1 + nondet_u8() % 127));
}

// ---- C15 Obl-A1 / C16 Obl-F2: Writer<std::string> histories ---------------------------------------------------------
// k <= 3 operations out of {write, rotate_output(name)} followed by destruction; ofstream buffering symbolic
static void named_history(bool faults, bool check_c16) {
    reset_model(faults);
    std::string name, ext; sym_name(name, 3); if (nondet_bool()) ext = ".gz";
    bool threw = false, rotate_returned_after_loss = false;
    char buf[4];
    {
        union WBox { Writer<std::string> w; WBox() {} ~WBox() {} } box;
        // everything after the construction stays inside this try block: the path on which the constructor threw is never
        // merged with the one on which the object (and its vptr) exists, so virtual calls resolve during symbolic execution
        try {
            new (&box.w) Writer<std::string>(name, ext);
            unsigned k = (unsigned)vs_range(3);
            for (unsigned i = 0; i < 3; i++) {
                if (i < k && !threw) {
                    bool lost_before = g_f.lost;
                    try {
                        if (nondet_bool()) { size_t n = (size_t)vs_range(4); box.w.write(buf, n); }
                        else {
                            std::string nn; sym_name(nn, 3);
                            box.w.rotate_output(boost::any(nn));
                            // C16: rotate_output closes the old output; it must not return normally if that output lost bytes
                            if (lost_before || g_final_incomplete > 0) rotate_returned_after_loss = true;
                        }
                    } catch (CborOutputException&) { threw = true; }
                }
            }
            box.w.~Writer<std::string>();
        } catch (CborOutputException&) { threw = true; }
    }
    __verif_assert(g_part_suffix_ok, "data is written only to '<name><suffix>.part' (C15)");
    __verif_assert(g_rename_names_ok, "rename goes from '<name><suffix>.part' to '<name><suffix>' of the file just written (C15)");
    __verif_assert(g_bad_renames == 0, "the final name appears only after the file was closed with every handed byte in it (C15)");
    __verif_assert(g_writes_after_rename == 0, "no write reaches an output after it was closed/renamed");
    if (!faults) {
        __verif_assert(!g_f.part_exists || threw, "without faults every opened output is closed and renamed by destruction");
        __verif_assert(g_final_incomplete == 0, "without faults no final file lacks bytes");
    } else if (check_c16) {
        __verif_assert(!rotate_returned_after_loss, "rotate_output does not return normally for an output that lost bytes (C16)");
    }
    WITNESS_END();
}
extern "C" void h_wr_named_nofault(void) { named_history(false, false); }
extern "C" void h_wr_named_faults(void) { named_history(true, false); }      // C15: .part / rename discipline under faults
extern "C" void h_wr_named_faults16(void) { named_history(true, true); }     // C16: failures must be reported

// ---- C16 Obl-F1: descriptor writer: short count or error => CborOutputException -----------------------------------------
extern "C" void h_wr_fd_write(void) {
    reset_model(true);
    union WBox { Writer<int> w; WBox() {} ~WBox() {} } box;
    try {
        new (&box.w) Writer<int>((int)nondet_u32());        // throws when fstat() rejects the descriptor
        char buf[4]; size_t n = (size_t)vs_range(4);
        bool threw = false;
        try { box.w.write(buf, n); } catch (CborOutputException&) { threw = true; }
        __verif_assert(threw == g_fd_short, "Writer<int>::write throws exactly when the OS wrote fewer bytes than requested (C16)");
        __verif_assert(g_fd_requested == n, "exactly the given bytes are offered to the descriptor");
    } catch (CborOutputException&) {}
    WITNESS_END();
}

// ---- C13 Obl-Kind: rotation to an identifier of another kind must not be silently ignored -------------------------------
extern "C" void h_wr_rotate_kind(void) {
    reset_model(false);
    std::string name; sym_name(name, 3);
    unsigned which = (unsigned)vs_range(2);
    bool returned = false;
    {
        union WBox { Writer<std::string> w; WBox() {} ~WBox() {} } box;
        try {
        new (&box.w) Writer<std::string>(name, "");
        unsigned renames_before = g_renames;
        try {
            if (which == 0) box.w.rotate_output(boost::any((int)nondet_u32()));        // descriptor given to a named output
            else if (which == 1) box.w.rotate_output(boost::any("next.cdns"));          // string literal (const char*)
            else { std::string nn; sym_name(nn, 3); box.w.rotate_output(boost::any(nn)); }
            returned = true;
        } catch (std::exception&) {}
        if (returned) __verif_assert(g_renames == renames_before + 1 && g_opens == 2,
                                     "a rotate_output that returns normally has closed the old output and opened a new one (C13)");
        box.w.~Writer<std::string>();
        } catch (CborOutputException&) {}
    }
    WITNESS_END();
}
extern "C" void h_wr_rotate_kind_fd(void) {
    reset_model(false);
    union WBox { Writer<int> w; WBox() {} ~WBox() {} } box;
    try {
        new (&box.w) Writer<int>((int)nondet_u32());
        bool returned = false;
        unsigned closes_before = g_fd_closes;
        try {
            if (nondet_bool()) { std::string nn; sym_name(nn, 3); box.w.rotate_output(boost::any(nn)); }   // name given to a descriptor output
            else box.w.rotate_output(boost::any((int)nondet_u32()));
            returned = true;
        } catch (std::exception&) {}
        if (returned) __verif_assert(g_fd_closes == closes_before + 1, "a rotate_output that returns normally has closed the old descriptor (C13)");
    } catch (CborOutputException&) {}
    WITNESS_END();
}

// ---- C14: compressor drivers with nondeterministic zlib / liblzma progress --------------------------------------------------
// ghost inner writer: counts what is forwarded
static uint64_t g_bytes_at_rotate, z_produced_at_end;
struct GhostWriter : BaseCborOutputWriter {
    uint64_t bytes; unsigned writes; unsigned rotates; bool fail_next;
    void write(const char*, std::size_t n) override { writes++; if (fail_next) throw CborOutputException("injected"); bytes += n; }
    void rotate_output(const boost::any&) override { rotates++; g_bytes_at_rotate = bytes; }
};
static uint64_t z_consumed, z_produced, z_pending; static bool z_inited, z_finished, z_init_failed; static unsigned z_calls, z_ends, z_inits; static bool z_misuse;
extern "C" int ext_deflateInit2_(z_stream* s, int, int, int, int, int, const char*, int) {
    z_inits++; z_inited = true; z_finished = false; z_consumed = z_produced = 0; z_pending = 1 + vs_range(7000);   // compressed bytes still to come at FINISH: up to more than two scratch buffers
    s->state = reinterpret_cast<internal_state*>(s);    // non-null while initialised
    if (nondet_bool()) { z_init_failed = true; return Z_MEM_ERROR; }
    return Z_OK;
}
extern "C" int ext_deflate(z_stream* s, int flush) {
    z_calls++;
    if (!z_inited || z_finished || s->next_out == nullptr) { z_misuse = true; return Z_STREAM_ERROR; }
    // consumes 0..avail_in, produces 0..avail_out; progress when both are non-zero; STREAM_END only for FINISH with everything out
    uint64_t take = nondet_u64(); if (take > s->avail_in) take = s->avail_in;
    if (flush == Z_FINISH) take = s->avail_in;                 // FINISH: all input is taken
    z_pending += take;                                         // compressed form of the input joins the pending output
    uint64_t put;
    if (flush == Z_FINISH) put = z_pending < s->avail_out ? z_pending : s->avail_out;      // FINISH fills the output buffer as far as it can
    else { put = nondet_u64(); if (put > s->avail_out) put = s->avail_out; if (put > z_pending) put = z_pending; }
    if (flush != Z_FINISH && s->avail_in > 0 && s->avail_out > 0 && take == 0) { take = 1; z_pending += 1; }   // input is consumed while there is room
    s->avail_in -= (unsigned)take; s->next_in += take; z_consumed += take;
    s->avail_out -= (unsigned)put; s->next_out += put; z_produced += put; z_pending -= put;
    if (flush == Z_FINISH && z_pending == 0) { z_finished = true; return Z_STREAM_END; }
    return Z_OK;
}
static bool z_end_unfinished;
extern "C" int ext_deflateEnd(z_stream* s) { z_ends++; z_produced_at_end = z_produced; if (!z_finished) z_end_unfinished = true; if (!z_inited) z_misuse = true; z_inited = false; s->state = nullptr; return Z_OK; }

extern "C" lzma_ret ext_lzma_easy_encoder(lzma_stream*, uint32_t, lzma_check) { return LZMA_MEM_ERROR; }
extern "C" lzma_ret ext_lzma_code(lzma_stream*, lzma_action) { return LZMA_PROG_ERROR; }
extern "C" void ext_lzma_end(lzma_stream*) {}

union GzBox { GzipCborOutputWriter w; GzBox() {} ~GzBox() {} };
static void gz_setup(GzBox& b, GhostWriter& g) {
    g.bytes = 0; g.writes = 0; g.rotates = 0; g.fail_next = false;
    z_misuse = false; z_calls = z_ends = z_inits = 0; z_inited = false; z_init_failed = false; z_end_unfinished = false;
    new (&b.w) GzipCborOutputWriter((int)0);       // Writer<int> inner (fstat stub); replaced by the ghost writer below
}
extern "C" void h_gz_write(void) {
    reset_model(false);
    GzBox b; GhostWriter g;
    try {
        gz_setup(b, g);
        b.w.m_writer.m_p = &g;                      // (the Writer<int> created by the constructor is leaked on purpose)
        char buf[4]; size_t n = (size_t)vs_range(3);
        bool threw = false;
        try { b.w.write(buf, n); } catch (std::exception&) { threw = true; }
        if (!threw) {
            __verif_assert(z_consumed == n, "write() returns only when the compressor has consumed all input (C14)");
            __verif_assert(g.bytes == z_produced, "every byte the compressor produced was forwarded to the inner writer, once (C14)");
        }
        __verif_assert(!z_misuse, "compressor API used per its contract");
        b.w.m_writer.m_p = nullptr;
    } catch (CborOutputException&) {}
    WITNESS_END();
}
static void gz_close(bool with_fault) {
    reset_model(false);
    GzBox b; GhostWriter g;
    try {
        gz_setup(b, g);
        b.w.m_writer.m_p = &g;                      // (the Writer<int> created by the constructor is leaked on purpose)
        bool fail = with_fault; g.fail_next = fail;
        bool threw = false;
        try { b.w.rotate_output(boost::any((int)1)); } catch (std::exception&) { threw = true; }
        if (!fail) {
            __verif_assert(!threw || z_init_failed, "rotation without faults succeeds (unless the compressor cannot be re-initialised)");
            __verif_assert(z_ends == 1 && z_inits == 2, "rotate_output = finish + end the stream, rotate the inner writer, re-initialise (C14)");
            __verif_assert(g.rotates == 1, "inner writer rotated exactly once");
            __verif_assert(!z_end_unfinished, "the stream is ended only after the compressor reported STREAM_END: the whole trailer was produced, whatever its size (C14)");
            __verif_assert(g.bytes == g_bytes_at_rotate && g.bytes == z_produced_at_end, "the trailer produced by FINISH was forwarded before the inner writer rotated (C14)");
        } else {
            __verif_assert(threw, "a failure of the inner writer while the compressor is drained is reported by rotate_output (C16)");
        }
        __verif_assert(!z_misuse, "compressor API used per its contract");
        b.w.m_writer.m_p = nullptr;
    } catch (CborOutputException&) {}
    WITNESS_END();
}
extern "C" void h_gz_close(void) { gz_close(false); }
extern "C" void h_gz_close_fault(void) { gz_close(true); }
// scratch space: the per-call stack buffer must be bounded independently of the chunk size (C14: "chunks of any size")
extern "C" uint64_t __verif_alloca_max;
extern "C" void h_gz_scratch(void) {
    reset_model(false);
    GzBox b; GhostWriter g;
    try {
        gz_setup(b, g);
        b.w.m_writer.m_p = &g;                      // (the Writer<int> created by the constructor is leaked on purpose)
        char buf[1]; size_t n = (size_t)nondet_u32();
        __verif_assume(n >= 1);
        try { b.w.write_gzip(n, Z_NO_FLUSH); } catch (std::exception&) {}
        __verif_assert(__verif_alloca_max <= (1u << 20), "stack scratch requested per call is bounded by a constant, not by the chunk size (C14)");
        b.w.m_writer.m_p = nullptr;
    } catch (CborOutputException&) {}
    WITNESS_END();
}
