// rend.cpp -- text renderers (U8): C03 Obl-R: get_readable_dname / get_readable_ip_address on arbitrary strings
#ifndef VS_STRCAP
#define VS_STRCAP 10
#endif
#define VS_SMALL_DNS_TABLES
#include "prelude.h"
#include "verif_api.cpp"
#include "interface.cpp"
using namespace CDNS;

#ifdef WITNESS
#define WITNESS_END() __verif_assert(false, "WITNESS: end of harness reachable")
#else
#define WITNESS_END() ((void)0)
#endif

static const std::string* g_ip_src; static bool g_ntop_called;
// inet_ntop(af, src, dst, size): reads exactly 4 / 16 bytes at src, writes a NUL-terminated string shorter than size
extern "C" const char* ext_inet_ntop(int af, const void* src, char* dst, unsigned size) {
    g_ntop_called = true;
    size_t need = (af == AF_INET6) ? 16 : 4;
    __verif_assert(g_ip_src != nullptr && src == (const void*)g_ip_src->data(), "inet_ntop is given the bytes of the address string");
    __verif_assert(need <= g_ip_src->size(), "inet_ntop reads 4 (IPv4) / 16 (IPv6) bytes: the address string must be at least that long (C03)");
    __verif_assert(size >= (af == AF_INET6 ? 46u : 16u), "destination buffer large enough for any textual address");
    if (nondet_bool()) return nullptr;                        // conversion failure
    size_t n = (size_t)vs_range(6);
    for (size_t i = 0; i < 6; i++) if (i < n) dst[i] = (char)('0' + nondet_u8() % 10);
    dst[n] = 0;
    return dst;
}
extern "C" size_t ext_strlen(const char* s) { size_t n = 0; while (s[n] != 0) n++; return n; }

static void sym_str(std::string& s) {
    s.m_len = (size_t)vs_range(VS_STRCAP);
    for (size_t i = 0; i < VS_STRCAP + 1; i++) s.m_data[i] = (char)nondet_u8();   // bytes beyond size() are arbitrary (no accidental terminator)
}

extern "C" void h_rend_dname(void) {
    std::string s; sym_str(s);
    uint64_t oob_before = __vs_oob_reads;
    std::string r = get_readable_dname(s);
    __verif_assert(__vs_oob_reads == oob_before, "get_readable_dname never indexes the name beyond size() (C03)");
    __verif_assert(r.size() <= s.size(), "rendered name is not longer than the wire name");
    WITNESS_END();
}
extern "C" void h_rend_ip(void) {
    std::string s; sym_str(s);
    g_ip_src = &s; g_ntop_called = false;
    bool v6 = nondet_bool();
    __verif_assume(v6 == (s.size() == 16));                   // how the callers choose the family
    std::string r = get_readable_ip_address(s, v6);
    WITNESS_END();
}
