// dec.cpp -- harnesses for the CBOR decoder (U2): C05 (end of input), C07 (well-formed input),
// C03 Obl-D (arbitrary input: memory safety, exception kinds, reserve requests).
// One call of each public operation from an arbitrary state satisfying I_dec, with an arbitrary
// remaining input R = window[m_p, m_end) ++ unread stream bytes, against a reference RFC 8949 parser.
#ifndef VS_STRCAP
#define VS_STRCAP 16
#endif
#include "verif_api.cpp"
#include "cdns_decoder.cpp"
using namespace CDNS;

static const size_t BS = CdnsDecoder::BUFFER_SIZE;
#ifndef DEC_MAXIN
#define DEC_MAXIN 12
#endif

union DecBox { CdnsDecoder d; DecBox() {} ~DecBox() {} };

struct Ctx {
    DecBox box;
    std::istream in;
    unsigned char src[DEC_MAXIN + 1];
    // snapshot of the abstract remaining input before the call (lazy: R(i) is a function, never an array
    // written at symbolic positions)
    unsigned char buf0[CDNS_VERIF_DECODER_BUFFER_SIZE]; size_t a0, e0, pos0; size_t rlen;
    bool readable;   // stream can still deliver bytes
    unsigned char R(size_t i) const { size_t w = e0 - a0; return i < w ? buf0[a0 + i] : src[pos0 + (i - w)]; }
};

// ---- state construction: arbitrary member of I_dec -------------------------------------------
static void setup(Ctx& c) {
    CdnsDecoder& d = c.box.d;
    size_t len = (size_t)vs_range(DEC_MAXIN);
    for (size_t i = 0; i < DEC_MAXIN; i++) c.src[i] = nondet_u8();
    size_t e = (size_t)vs_range(BS);
    size_t a = (size_t)vs_range(BS);
    __verif_assume(a <= e);
    size_t pos = (size_t)vs_range(DEC_MAXIN);
    __verif_assume(pos <= len);
    unsigned st;
    unsigned kind = (unsigned)vs_range(3);
    if (e == BS) {
        // last refill was complete: the stream is still good (even if it happens to be exhausted)
        st = std::ios_base::goodbit;
    } else if (kind == 0) {
        // fresh decoder: nothing read yet; stream good, or unopened (failbit only)
        a = 0; e = 0; pos = 0;
        st = nondet_bool() ? std::ios_base::goodbit : std::ios_base::failbit;
    } else if (kind == 1) {
        // last refill was short: stream exhausted, eofbit|failbit
        pos = len;
        st = std::ios_base::eofbit | std::ios_base::failbit;
    } else {
        // last refill attempted on a stream that was not good: nothing extracted
        a = 0; e = 0;
        st = std::ios_base::failbit | (nondet_bool() ? std::ios_base::eofbit : 0);
        if (st & std::ios_base::eofbit) pos = len;
    }
    c.in.m_src = c.src; c.in.m_len = len; c.in.m_pos = pos; c.in.m_state = st; c.in.m_gcount = 0; c.in.m_reads = 0;
    // the decoder holds a reference to the stream: bind it with the real constructor, then move the window
    new (&c.box.d) CdnsDecoder(c.in);
    for (size_t i = 0; i < BS; i++) d.m_buffer[i] = nondet_u8();      // stale bytes are unconstrained
    d.m_p = d.m_buffer + a;
    d.m_end = d.m_buffer + e;
    c.readable = (st == std::ios_base::goodbit);
    // snapshot R
    for (size_t i = 0; i < BS; i++) c.buf0[i] = d.m_buffer[i];
    c.a0 = a; c.e0 = e; c.pos0 = pos;
    c.rlen = (e - a) + (c.readable ? len - pos : 0);
    if (__verif_native()) {   // replay/differential builds: show the state (window a..e, stream pos/len/state, R)
        __verif_observe(a); __verif_observe(e); __verif_observe(pos); __verif_observe(len); __verif_observe(st); __verif_observe(c.rlen);
        for (size_t i = 0; i < c.rlen; i++) __verif_observe(1000 + c.R(i));
    }
}

// abstract remaining input after the call
static size_t rem_len(Ctx& c) {
    CdnsDecoder& d = c.box.d;
    size_t n = (size_t)(d.m_end - d.m_p);
    if (c.in.m_state == std::ios_base::goodbit) n += c.in.m_len - c.in.m_pos;
    return n;
}
static unsigned char rem_byte(Ctx& c, size_t i) {
    CdnsDecoder& d = c.box.d;
    size_t w = (size_t)(d.m_end - d.m_p);
    if (i < w) return d.m_p[i];
    return c.src[c.in.m_pos + (i - w)];
}
static void check_inv(Ctx& c) {
    CdnsDecoder& d = c.box.d;
    __verif_assert(d.m_buffer <= d.m_p && d.m_p <= d.m_end && d.m_end <= d.m_buffer + BS, "I_dec: m_buffer <= m_p <= m_end <= m_buffer+BUFFER_SIZE");
    __verif_assert(c.in.m_pos <= c.in.m_len, "stream model: pos <= len");
    // the full representation invariant must be re-established (the inductive step is only valid then): a window that
    // still holds unread bytes or is completely filled belongs to a stream that delivered it in full
    size_t e = (size_t)(d.m_end - d.m_buffer), a = (size_t)(d.m_p - d.m_buffer);
    bool good = c.in.m_state == std::ios_base::goodbit;
    bool exhausted = c.in.m_pos == c.in.m_len && (c.in.m_state & std::ios_base::failbit);
    __verif_assert(good || a == e || exhausted, "I_dec: unread window bytes only from a stream that is still good or was read to its end");
}
// exactly `consumed` bytes were taken from R and the rest is still there, in order
static void check_consumed(Ctx& c, size_t consumed) {
    __verif_assert(rem_len(c) == c.rlen - consumed, "exactly the item's bytes were consumed");
    size_t i = (size_t)vs_range(2 * DEC_MAXIN);
    if (i < c.rlen - consumed) __verif_assert(rem_byte(c, i) == c.R(consumed + i), "the remaining input is unchanged and in order (next read sees the following item)");
}

// ---- reference parser ---------------------------------------------------------------------------
enum Out { VALUE = 0, END = 1, ERROR = 2 };
struct Ref { Out out; uint64_t val; size_t used; bool indef; };

// head: major type + argument; END if truncated; ERROR for additional information 28..30 (and 31 where not allowed)
static Ref ref_head(Ctx& c, size_t at, unsigned& major, unsigned& ai) {
    Ref r; r.out = VALUE; r.val = 0; r.used = 0; r.indef = false;
    if (at >= c.rlen) { r.out = END; major = 8; ai = 0; return r; }
    unsigned b = c.R(at); major = b >> 5; ai = b & 31;
    if (ai <= 23) { r.val = ai; r.used = 1; return r; }
    if (ai >= 28) { r.used = 1; r.indef = (ai == 31); if (ai != 31) r.out = ERROR; return r; }
    unsigned n = 1u << (ai - 24);
    if (c.rlen - at - 1 < n) { r.out = END; return r; }
    for (unsigned i = 0; i < n; i++) r.val = (r.val << 8) | c.R(at + 1 + i);
    r.used = 1 + n;
    return r;
}

// outcome classification of a call
enum Exc { NONE = 0, X_END = 1, X_DEC = 2, X_STD = 3, X_OTHER = 4 };

#ifdef WITNESS
#define WITNESS_END() __verif_assert(false, "WITNESS: end of harness reachable")
#else
#define WITNESS_END() ((void)0)
#endif

static void check_reserve(Ctx& c) {
    // an allocation request may be bounded by a constant or by the size of the input, never by a length field alone
    __verif_assert(__vs_reserve_max <= (1u << 20) || __vs_reserve_max <= c.rlen, "reserve() request bounded by a constant or by the remaining input (C03)");
}

#define CALL(expr) \
    Exc x = NONE; \
    try { expr; } \
    catch (CdnsDecoderEnd&) { x = X_END; } \
    catch (CdnsDecoderException&) { x = X_DEC; } \
    catch (std::exception&) { x = X_STD; } \
    catch (...) { x = X_OTHER; } \
    check_inv(c); \
    __verif_assert(x != X_OTHER, "failure is reported only through std::exception-derived errors (C03)"); \
    if (x == X_END) __verif_assert(rem_len(c) == 0, "after CdnsDecoderEnd the decoder stays at end of input: no stale window bytes can be served by a later call (C05)"); \
    __verif_observe((uint64_t)x);

// ---- integer-like primitives ---------------------------------------------------------------------
// op: 0 read_unsigned 1 read_negative 2 read_integer 3 read_array_start 4 read_map_start 5 read_break 6 read_bool 7 peek_type
static void prim_op(unsigned op) {
    Ctx c; setup(c);
    CdnsDecoder& d = c.box.d;
    unsigned major = 0, ai = 0;
    Ref r = ref_head(c, 0, major, ai);
    uint64_t got = 0; bool indef = false;
    CALL(
        switch (op) {
            case 0: got = d.read_unsigned(); break;
            case 1: got = (uint64_t)d.read_negative(); break;
            case 2: got = (uint64_t)d.read_integer(); break;
            case 3: got = d.read_array_start(indef); break;
            case 4: got = d.read_map_start(indef); break;
            case 5: d.read_break(); break;
            case 6: got = d.read_bool() ? 1 : 0; break;
            default: got = (uint64_t)d.peek_type(); break;
        })
    __verif_observe(got);
    if (c.rlen == 0) {
        __verif_assert(x == X_END, "exhausted input: CdnsDecoderEnd is thrown, no value is fabricated (C05)");
    } else if (op == 7) {
        __verif_assert(x == NONE, "peek_type succeeds when a byte is available");
        uint8_t b = c.R(0);
        __verif_assert(got == (b == 0xff ? (uint64_t)CborType::BREAK : (uint64_t)(b & 0xe0)), "peek_type reports the major type, BREAK only for 0xff");
        check_consumed(c, 0);
    } else {
        // expected outcome for the operation given the head
        bool kind_ok; bool want_indef_ok = false;
        switch (op) {
            case 0: kind_ok = major == 0; break;
            case 1: kind_ok = major == 1; break;
            case 2: kind_ok = major == 0 || major == 1; break;
            case 3: kind_ok = major == 4; want_indef_ok = true; break;
            case 4: kind_ok = major == 5; want_indef_ok = true; break;
            case 5: kind_ok = c.R(0) == 0xff; break;
            default: kind_ok = c.R(0) == 0xf4 || c.R(0) == 0xf5; break;
        }
        if (op == 5 || op == 6) {
            if (kind_ok) {
                __verif_assert(x == NONE, "well-formed break/bool is accepted (C07)");
                if (op == 6) __verif_assert(got == (c.R(0) == 0xf5 ? 1u : 0u), "bool value per RFC 8949 (f4=false, f5=true)");
                check_consumed(c, 1);
            } else if (op == 5) {
                __verif_assert(x != NONE, "read_break on anything but 0xff fails");
            }
        } else if (kind_ok && r.out == END) {
            __verif_assert(x == X_END, "truncated head: CdnsDecoderEnd (C05)");
        } else if (kind_ok && r.out == VALUE && (!r.indef || want_indef_ok)) {
            __verif_assert(x == NONE, "well-formed head of the right kind is accepted, any head width (C07)");
            if (r.indef) {
                __verif_assert(indef && got == 0, "indefinite-length start reported");
            } else {
                if (op == 3 || op == 4) __verif_assert(!indef, "definite-length start reported");
                if (op == 1 || (op == 2 && major == 1)) {
                    if (r.val < (1ULL << 63)) __verif_assert((int64_t)got == -1 - (int64_t)r.val, "negative integer value is -1 - n (C07)");
                } else {
                    __verif_assert(got == r.val, "value equals the big-endian argument (C07)");
                }
            }
            check_consumed(c, r.used);
        } else if (!kind_ok) {
            __verif_assert(x != NONE, "wrong major type is refused");
        } else {
            __verif_assert(x != NONE || true, "malformed additional information");
        }
    }
    check_reserve(c);
    WITNESS_END();
}
#define PRIM_H(n, name) extern "C" void h_dec_##name(void) { prim_op(n); }
PRIM_H(0, unsigned_) PRIM_H(1, negative) PRIM_H(2, integer) PRIM_H(3, array_start) PRIM_H(4, map_start) PRIM_H(5, break_) PRIM_H(6, bool_) PRIM_H(7, peek)

// ---- strings ----------------------------------------------------------------------------------------
// reference: definite string or chunked string (chunks definite, same major type), terminated by 0xff
// (lazy: byte `want` of the expected result is returned, the result is never materialised)
struct SRef { Out out; size_t used; size_t n; size_t want; unsigned char byte_want; };
static void ref_string(Ctx& c, unsigned want_major, SRef& s) {
    s.out = VALUE; s.used = 0; s.n = 0; s.byte_want = 0;
    unsigned major = 0, ai = 0;
    Ref h = ref_head(c, 0, major, ai);
    if (c.rlen == 0) { s.out = END; return; }
    if (major != want_major || h.out == ERROR) { s.out = ERROR; return; }   // malformed before truncated: not a prefix of a well-formed item
    if (h.out == END) { s.out = END; return; }
    if (!h.indef) {
        if (h.val > c.rlen - h.used) { s.out = END; return; }
        if (s.want < (size_t)h.val) s.byte_want = c.R(h.used + s.want);
        s.n = (size_t)h.val;
        s.used = h.used + (size_t)h.val;
        return;
    }
    size_t at = 1;
    for (unsigned k = 0; k <= DEC_MAXIN; k++) {
        if (at >= c.rlen) { s.out = END; return; }
        if (c.R(at) == 0xff) { s.used = at + 1; return; }
        unsigned cm = 0, cai = 0;
        Ref ch = ref_head(c, at, cm, cai);
        if (cm != want_major || ch.out == ERROR || ch.indef) { s.out = ERROR; return; }
        if (ch.out == END) { s.out = END; return; }
        if (ch.val > c.rlen - at - ch.used) { s.out = END; return; }
        if (s.want >= s.n && s.want - s.n < (size_t)ch.val) s.byte_want = c.R(at + ch.used + (s.want - s.n));
        s.n += (size_t)ch.val;
        at += ch.used + (size_t)ch.val;
    }
    s.out = ERROR;
}

static void string_op(unsigned op) {
    Ctx c; setup(c);
    CdnsDecoder& d = c.box.d;
    SRef s; s.want = (size_t)vs_range(2 * DEC_MAXIN); ref_string(c, op == 0 ? 2 : 3, s);
    std::string got;
    CALL(got = (op == 0 ? d.read_bytestring() : d.read_textstring()))
    if (s.out == END) {
        __verif_assert(x == X_END, "truncated string: CdnsDecoderEnd (C05)");
    } else if (s.out == VALUE) {
        __verif_assert(x == NONE, "well-formed definite or chunked string is accepted (C07)");
        __verif_assert(got.size() == s.n, "string length equals the payload length (concatenation of chunks)");
        if (s.want < s.n) __verif_assert((unsigned char)got.m_data[s.want] == s.byte_want, "string bytes equal the payload bytes, in order");
        check_consumed(c, s.used);
    }
    // (malformed strings: the properties only demand memory safety and std::exception-derived failures)
    check_reserve(c);
    WITNESS_END();
}
extern "C" void h_dec_bytestring(void) { string_op(0); }
extern "C" void h_dec_textstring(void) { string_op(1); }

// ---- skip_item: body-wise against the contract of the recursive call (DESIGN.md 3.3) ------------------
// ghost description of the input: head ++ K opaque children ++ [break] ; the contract stub consumes one child
static unsigned g_child_len[4]; static unsigned g_children; static unsigned g_child_next; static size_t g_child_pos[4];
static Ctx* g_ctx; static bool g_contract_misuse; static unsigned g_depth_given, g_depth_bad;
extern "C" void skip_item__contract(CdnsDecoder* d, unsigned depth) {
    if (depth != g_depth_given + 1) g_depth_bad++;       // every recursive call goes exactly one level deeper
    // contract of skip_item on a well-formed child: consumes exactly the child's bytes (End if the input ends inside it)
    Ctx& c = *g_ctx;
    if (g_child_next >= g_children) { g_contract_misuse = true; throw CdnsDecoderException("contract: unexpected child"); }
    size_t at = c.rlen - rem_len(c);
    if (at != g_child_pos[g_child_next]) g_contract_misuse = true;
    unsigned n = g_child_len[g_child_next++];
    for (unsigned i = 0; i < n; i++) { d->read_to_buffer(); d->m_p++; }
}

// kind: 0 definite array 1 definite map 2 indefinite array 3 indefinite map 4 tag
static void skip_container(unsigned kind) {
    Ctx c; setup(c); g_ctx = &c; g_contract_misuse = false;
    CdnsDecoder& d = c.box.d;
    unsigned major = 0, ai = 0;
    Ref h = ref_head(c, 0, major, ai);
    __verif_assume(c.rlen > 0 && h.out == VALUE);
    unsigned want = (kind == 0 || kind == 2) ? 4 : (kind == 4 ? 6 : 5);
    __verif_assume(major == want);
    __verif_assume(h.indef == (kind == 2 || kind == 3));
    unsigned per = (kind == 1 || kind == 3) ? 2 : 1;
    unsigned items;
    if (kind == 4) items = 1;
    else if (h.indef) items = (unsigned)vs_range(2 / per + (per == 1 ? 1 : 0)) * per;   // 0..3 children (maps: 0 or 2)
    else { __verif_assume(h.val * per <= 3); items = (unsigned)h.val * per; }
    g_children = items; g_child_next = 0;
    size_t at = h.used;
    for (unsigned k = 0; k < 3; k++) {
        if (k < items) {
            g_child_len[k] = 1 + (unsigned)vs_range(2);
            g_child_pos[k] = at;
            __verif_assume(at < c.rlen && c.R(at) != 0xff);           // a well-formed item never starts with the break byte
            __verif_assume(g_child_len[k] <= c.rlen - at);
            at += g_child_len[k];
        }
    }
    if (h.indef) { __verif_assume(at < c.rlen && c.R(at) == 0xff); at += 1; }
    g_depth_given = (unsigned)vs_range(CdnsDecoder::MAX_SKIP_NESTING); g_depth_bad = 0;
    CALL(d.skip_item(g_depth_given))
    __verif_assert(g_depth_bad == 0, "recursive calls pass depth + 1 (nesting is counted)");
    __verif_assert(!g_contract_misuse, "recursive skip_item calls happen exactly at the children's positions");
    __verif_assert(x == NONE, "well-formed container / tag is skipped without error (C07)");
    __verif_assert(g_child_next == items, "every child was skipped");
    check_consumed(c, at);
    WITNESS_END();
}
extern "C" void h_dec_skip_array(void) { skip_container(0); }
extern "C" void h_dec_skip_map(void) { skip_container(1); }
extern "C" void h_dec_skip_indef_array(void) { skip_container(2); }
extern "C" void h_dec_skip_indef_map(void) { skip_container(3); }
extern "C" void h_dec_skip_tag(void) { skip_container(4); }

// leaf items: integers, simple values, floats (half/single/double), definite and chunked strings
extern "C" void h_dec_skip_leaf(void) {
    Ctx c; setup(c); g_ctx = &c; g_contract_misuse = false; g_children = 0; g_child_next = 0;
    CdnsDecoder& d = c.box.d;
    unsigned major = 0, ai = 0;
    Ref h = ref_head(c, 0, major, ai);
    Out out; size_t used = 0;
    if (h.out == END) out = END;
    else if (major == 0 || major == 1) { out = h.indef ? ERROR : h.out; used = h.used; }
    else if (major == 7) { if (ai == 31) out = ERROR; else { out = h.out; used = h.used; } }   // simple / float: argument bytes only
    else if (major == 2 || major == 3) { SRef s; s.want = 0; ref_string(c, major, s); out = s.out; used = s.used; }
    else out = ERROR;   // containers and tags: separate obligations
    __verif_assume(major == 0 || major == 1 || major == 7 || major == 2 || major == 3 || c.rlen == 0);
    g_depth_given = 0;
    CALL(d.skip_item())
    if (c.rlen == 0 || out == END) __verif_assert(x == X_END, "truncated item: CdnsDecoderEnd (C05)");
    else if (out == VALUE) { __verif_assert(x == NONE, "well-formed leaf item is skipped (C07)"); check_consumed(c, used); }
    check_reserve(c);
    WITNESS_END();
}

// arbitrary input to skip_item with the recursive call replaced by its contract on arbitrary children:
// memory safety / exception kinds only (C03); nested depth is covered by h_dec_skip_depth
extern "C" void h_dec_skip_any(void) {
    Ctx c; setup(c); g_ctx = &c; g_contract_misuse = false;
    CdnsDecoder& d = c.box.d;
    g_children = 3; g_child_next = 0;
    for (unsigned k = 0; k < 3; k++) { g_child_len[k] = 1 + (unsigned)vs_range(2); g_child_pos[k] = 0; }
    g_depth_given = 0;
    CALL(d.skip_item())
    if (c.rlen == 0) __verif_assert(x == X_END, "exhausted input: CdnsDecoderEnd (C05)");
    check_reserve(c);
    WITNESS_END();
}

// nesting: beyond MAX_SKIP_NESTING levels the item is refused before anything is read or any deeper call is made,
// so the recursion depth (stack use) is bounded by a constant independent of the input (C03)
extern "C" void h_dec_skip_depth(void) {
    Ctx c; setup(c); g_ctx = &c; g_contract_misuse = false;
    CdnsDecoder& d = c.box.d;
    g_children = 3; g_child_next = 0;
    for (unsigned k = 0; k < 3; k++) { g_child_len[k] = 1 + (unsigned)vs_range(2); g_child_pos[k] = 0; }
    g_depth_given = nondet_u32(); g_depth_bad = 0;
    __verif_assume(g_depth_given < 0xfffffff0u);
    CALL(d.skip_item(g_depth_given))
    __verif_assert(g_depth_bad == 0, "recursive calls pass depth + 1 (nesting is counted)");
    if (g_depth_given > CdnsDecoder::MAX_SKIP_NESTING) {
        __verif_assert(x == X_DEC, "nesting beyond the limit is refused with CdnsDecoderException");
        __verif_assert(g_child_next == 0 && rem_len(c) == c.rlen, "nothing is read and no deeper call is made once the limit is exceeded");
    }
    WITNESS_END();
}
