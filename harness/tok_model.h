// tok_model.h -- definitions of the CdnsEncoder / CdnsDecoder member functions as the token model (see tok.h).
// Included once by the L2 harness TU *instead of* cdns_encoder.cpp / cdns_decoder.cpp.
#pragma once
#include "tok.h"
#include "cdns_encoder.h"
#include "cdns_decoder.h"
using namespace CDNS;

Store W; uint64_t w_bytes; bool w_phase_value; int w_cur_slot; bool w_in_arr; int w_arr_slot;
bool w_item_arrays;      // block-level mode: arrays hold only nested items (stub tokens); an array ends at the next scalar (= map key)
static uint64_t w_arr_declared, w_arr_count;
Store R; uint8_t r_order[TK_NSLOT]; unsigned r_nmem; bool r_indef; unsigned r_pos; bool r_value_pending;
unsigned r_tokens, r_cut; bool r_in_arr; int r_arr_slot; unsigned r_arr_pos; bool r_arr_indef; bool r_done, r_misuse;
static int r_cur_slot; static bool r_started;

void tk_wreset() { tk_clear(W); w_item_arrays = false; w_bytes = 0; w_phase_value = false; w_cur_slot = 0; w_in_arr = false; w_arr_slot = 0; w_arr_declared = w_arr_count = 0; }
void tk_rreset() { r_pos = 0; r_value_pending = false; r_tokens = 0; r_cut = ~0u; r_in_arr = false; r_arr_slot = 0; r_arr_pos = 0; r_arr_indef = false; r_done = false; r_misuse = false; r_cur_slot = 0; r_started = false; r_indef = false; }

// =========================================================================================== writer side
static void w_emit(const Tok& t) {
    if (!W.started) {
        W.started = true;
        if (t.kind == K_MAP) { W.top = K_MAP; W.declared = t.u; }
        else if (t.kind == K_ARR) { W.top = K_ARR; W.declared = t.u; w_in_arr = t.u > 0; w_arr_slot = 0; w_arr_count = 0; w_arr_declared = t.u; }
        else { W.top = t.kind; W.top_tok = t; }
        return;
    }
    if (w_in_arr && w_item_arrays && t.kind != K_ITEM) {                // the array of items is over: its length must be what was declared
        if (w_arr_count != w_arr_declared) W.bad = true;
        w_in_arr = false;
    }
    if (w_in_arr) {
        if (w_arr_count < TK_NARR) W.arr[w_arr_slot][w_arr_count] = t; else W.bad = true;
        w_arr_count++;
        if (W.top == K_ARR) W.count++;
        if (!w_item_arrays && w_arr_count == w_arr_declared) w_in_arr = false;
        return;
    }
    if (W.top != K_MAP) { W.bad = true; return; }                       // a second item after the single top-level item
    if (!w_phase_value) {                                               // map key
        int sl = -1;
        if (t.kind == K_UINT && t.u <= 16) sl = tk_slot((int64_t)t.u);
        else if (t.kind == K_NEG && t.u <= 2) sl = tk_slot(-1 - (int64_t)t.u);
        if (sl < 0) { W.bad = true; sl = 0; }
        else if (W.seen & (1u << sl)) W.bad = true;                      // duplicate key
        w_cur_slot = sl; w_phase_value = true;
        return;
    }
    W.val[w_cur_slot] = t; W.seen |= (1u << w_cur_slot); W.count++; w_phase_value = false;
    if (t.kind == K_ARR && (t.u > 0 || w_item_arrays)) { w_in_arr = true; w_arr_slot = w_cur_slot; w_arr_count = 0; w_arr_declared = t.u; }
    if (t.kind == K_MAP) W.bad = true;                                   // nested maps come from (stubbed) nested write() calls only
}
// the item is complete and well formed: exactly one item, declared counts == members present, every key has its value
static bool w_wellformed() {
    if (w_in_arr && w_item_arrays) { if (w_arr_count != w_arr_declared) return false; }
    else if (w_in_arr) return false;
    if (!W.started || W.bad || w_phase_value) return false;
    if (W.top == K_MAP || W.top == K_ARR) return W.count == W.declared;
    return true;
}
static std::size_t w_size() { std::size_t n = 1 + (nondet_u8() & 7); w_bytes += n; return n; }   // arbitrary positive size per token (L1: C06/C10)
static Tok w_tok(uint8_t k, uint64_t u) { return Builder::mk(k, u); }
static Tok w_str(const unsigned char* p, std::size_t n, bool text) {
    Tok t = w_tok(text ? K_TSTR : K_BSTR, 0);
    VS_BOUND(n <= VS_STRCAP, "token string longer than model capacity");
    t.slen = (uint8_t)n; for (unsigned i = 0; i < VS_STRCAP; i++) t.s[i] = i < n ? p[i] : 0;
    return t;
}
std::size_t CdnsEncoder::write_array_start(std::size_t n) { w_emit(w_tok(K_ARR, n)); return w_size(); }
std::size_t CdnsEncoder::write_map_start(std::size_t n) { w_emit(w_tok(K_MAP, n)); return w_size(); }
std::size_t CdnsEncoder::write_indef_array_start() { W.bad = true; return w_size(); }     // not used by the per-structure writers
std::size_t CdnsEncoder::write_indef_map_start() { W.bad = true; return w_size(); }
std::size_t CdnsEncoder::write_break() { W.bad = true; return w_size(); }
std::size_t CdnsEncoder::write_bytestring(const unsigned char* p, std::size_t n) { if (!p) return 0; w_emit(w_str(p, n, false)); return w_size(); }
std::size_t CdnsEncoder::write_textstring(const unsigned char* p, std::size_t n) { if (!p) return 0; w_emit(w_str(p, n, true)); return w_size(); }
std::size_t CdnsEncoder::write(bool v) { w_emit(w_tok(K_BOOL, v ? 1 : 0)); return w_size(); }
std::size_t CdnsEncoder::write(uint8_t v) { w_emit(w_tok(K_UINT, v)); return w_size(); }
std::size_t CdnsEncoder::write(uint16_t v) { w_emit(w_tok(K_UINT, v)); return w_size(); }
std::size_t CdnsEncoder::write(uint32_t v) { w_emit(w_tok(K_UINT, v)); return w_size(); }
std::size_t CdnsEncoder::write(uint64_t v) { w_emit(w_tok(K_UINT, v)); return w_size(); }
std::size_t CdnsEncoder::write(int8_t v) { w_emit(Builder::mki(v)); return w_size(); }
std::size_t CdnsEncoder::write(int16_t v) { w_emit(Builder::mki(v)); return w_size(); }
std::size_t CdnsEncoder::write(int32_t v) { w_emit(Builder::mki(v)); return w_size(); }
std::size_t CdnsEncoder::write(int64_t v) { w_emit(Builder::mki(v)); return w_size(); }
void CdnsEncoder::flush_buffer() {}
// nested write() calls are replaced by this contract: exactly one item (tagged with its source object), positive size
static std::size_t tk_emit_item(uint8_t tid, const void* obj, uint64_t tag) { Tok t = w_tok(K_ITEM, tag); t.tid = tid; t.obj = obj; w_emit(t); return w_size(); }

// =========================================================================================== reader side
static int64_t r_key_of(int slot) { return slot <= 16 ? slot : (slot <= 19 ? -(int64_t)(slot - 16) : R.ukey[slot - TK_UNK0]); }
static void r_tick() { if (r_tokens >= r_cut) throw CdnsDecoderEnd("End of input stream"); r_tokens++; }
static void r_member_done() { r_value_pending = false; r_pos++; if (!r_indef && r_pos == r_nmem) r_done = true; }
static uint64_t r_cur_len() { return r_arr_slot < 0 ? R.declared : R.val[r_arr_slot].u; }
static void r_elem_done() { r_arr_pos++; if (!r_arr_indef && r_arr_pos == r_cur_len()) { r_in_arr = false; if (r_arr_slot >= 0) r_member_done(); else r_done = true; } }
// the token a consuming read would take next is named by a source code (no pointers with symbolic offsets into the
// store, no struct copies at symbolic indices): >= 0 slot of R.val, -1 the scalar top-level item, -2 current array element
#define SRC_NONE (-9)
static int r_arr_row() { return r_arr_slot < 0 ? 0 : r_arr_slot; }
static unsigned r_arr_col() { return r_arr_pos < TK_NARR ? r_arr_pos : 0; }
static uint8_t tk_kind(int src) { return src >= 0 ? R.val[src].kind : (src == -1 ? R.top_tok.kind : R.arr[r_arr_row()][r_arr_col()].kind); }
static uint64_t tk_u(int src) { return src >= 0 ? R.val[src].u : (src == -1 ? R.top_tok.u : R.arr[r_arr_row()][r_arr_col()].u); }
static uint8_t tk_slen(int src) { return src >= 0 ? R.val[src].slen : (src == -1 ? R.top_tok.slen : R.arr[r_arr_row()][r_arr_col()].slen); }
static unsigned char tk_s(int src, unsigned i) { return src >= 0 ? R.val[src].s[i] : (src == -1 ? R.top_tok.s[i] : R.arr[r_arr_row()][r_arr_col()].s[i]); }
static uint8_t tk_tid(int src) { return src >= 0 ? R.val[src].tid : (src == -1 ? R.top_tok.tid : R.arr[r_arr_row()][r_arr_col()].tid); }
static const void* tk_obj(int src) { return src >= 0 ? R.val[src].obj : (src == -1 ? R.top_tok.obj : R.arr[r_arr_row()][r_arr_col()].obj); }
static int r_next(bool& is_key, bool& at_break) {
    is_key = false; at_break = false;
    if (r_in_arr) { if (r_arr_pos < r_cur_len()) return -2; at_break = r_arr_indef; return SRC_NONE; }
    if (!r_started) { if (R.top == K_MAP || R.top == K_ARR) return SRC_NONE; return -1; }
    if (r_value_pending) return r_cur_slot;
    if (r_pos < r_nmem) { is_key = true; return SRC_NONE; }
    at_break = r_indef && !r_done;
    return SRC_NONE;
}
static uint8_t r_cbor_type_k(uint8_t kind) {
    switch (kind) {
        case K_UINT: return 0x00; case K_NEG: return 0x20; case K_BSTR: return 0x40; case K_TSTR: return 0x60;
        case K_ARR: return 0x80; case K_MAP: case K_ITEM: return 0xA0; case K_BOOL: return 0xE0; default: return 0xC0;
    }
}
CborType CdnsDecoder::peek_type() {
    if (r_tokens >= r_cut) throw CdnsDecoderEnd("End of input stream");
    if (!r_started && R.top == K_BRK) return CborType::BREAK;          // the only thing offered is the break that closes an enclosing array
    bool is_key, at_break; int src = r_next(is_key, at_break);
    if (at_break) return CborType::BREAK;
    if (is_key) return r_key_of(r_order[r_pos]) < 0 ? CborType::NEGATIVE : CborType::UNSIGNED;
    if (src != SRC_NONE) return static_cast<CborType>(r_cbor_type_k(tk_kind(src)));
    if (!r_started) return R.top == K_MAP ? CborType::MAP : CborType::ARRAY;
    throw CdnsDecoderEnd("End of input stream");           // nothing follows the single item offered
}
static int r_take(bool want_key_ok, bool& was_key, int64_t& key) {
    r_tick();
    bool is_key, at_break; int src = r_next(is_key, at_break);
    was_key = false;
    if (at_break) throw CdnsDecoderException("model: value read at a break");
    if (is_key) {
        if (!want_key_ok) throw CdnsDecoderException("model: wrong major type (integer key)");
        r_cur_slot = r_order[r_pos]; key = r_key_of(r_cur_slot); r_value_pending = true; was_key = true;
        return SRC_NONE;
    }
    if (src == SRC_NONE) { if (r_started) throw CdnsDecoderEnd("End of input stream"); throw CdnsDecoderException("model: container where a scalar was expected"); }
    return src;
}
static void r_consumed_value() { if (r_in_arr) r_elem_done(); else if (!r_started) { r_started = true; r_done = true; } else r_member_done(); }
uint64_t CdnsDecoder::read_unsigned() {
    bool was_key; int64_t key = 0; int t = r_take(true, was_key, key);
    if (was_key) { if (key < 0) { r_value_pending = false; throw CdnsDecoderException("read_unsigned() called on wrong major type"); } return (uint64_t)key; }
    if (tk_kind(t) != K_UINT) throw CdnsDecoderException("read_unsigned() called on wrong major type");
    uint64_t v = tk_u(t); r_consumed_value(); return v;
}
int64_t CdnsDecoder::read_negative() {
    bool was_key; int64_t key = 0; int t = r_take(true, was_key, key);
    if (was_key) { if (key >= 0) { r_value_pending = false; throw CdnsDecoderException("read_negative() called on wrong major type"); } return key; }
    if (tk_kind(t) != K_NEG) throw CdnsDecoderException("read_negative() called on wrong major type");
    int64_t v = -1 - (int64_t)tk_u(t); r_consumed_value(); return v;
}
int64_t CdnsDecoder::read_integer() {
    bool was_key; int64_t key = 0; int t = r_take(true, was_key, key);
    if (was_key) return key;
    uint8_t k = tk_kind(t);
    if (tk_tid(t) != TID_SINT && k != K_UINT && k != K_NEG) throw CdnsDecoderException("read_integer() called on wrong major type");
    int64_t v = k == K_UINT ? (int64_t)tk_u(t) : -1 - (int64_t)tk_u(t); r_consumed_value(); return v;
}
bool CdnsDecoder::read_bool() {
    bool was_key; int64_t key = 0; int t = r_take(false, was_key, key);
    uint8_t k = tk_kind(t);
    if (k == K_UINT) { bool v = tk_u(t) != 0; r_consumed_value(); return v; }       // the real decoder accepts integers as booleans
    if (k != K_BOOL) throw CdnsDecoderException("read_bool() called on wrong major type");
    bool v = tk_u(t) != 0; r_consumed_value(); return v;
}
static std::string r_string(uint8_t kind) {
    bool was_key; int64_t key = 0; int t = r_take(false, was_key, key);
    if (tk_kind(t) != kind) throw CdnsDecoderException("read_*string() called on wrong major type");
    std::string s; uint8_t n = tk_slen(t);
    for (unsigned i = 0; i < VS_STRCAP; i++) if (i < n) s.push_back((char)tk_s(t, i));
    r_consumed_value(); return s;
}
std::string CdnsDecoder::read_bytestring() { return r_string(K_BSTR); }
std::string CdnsDecoder::read_textstring() { return r_string(K_TSTR); }
uint64_t CdnsDecoder::read_map_start(bool& indef) {
    r_tick();
    if (r_started || R.top != K_MAP) throw CdnsDecoderException("read_map_start() called on wrong major type");
    r_started = true; indef = r_indef;
    if (!r_indef && r_nmem == 0) r_done = true;
    return r_indef ? 0 : r_nmem;
}
uint64_t CdnsDecoder::read_array_start(bool& indef) {
    r_tick();
    if (!r_started) {
        if (R.top != K_ARR) throw CdnsDecoderException("read_array_start() called on wrong major type");
        r_started = true; r_in_arr = true; r_arr_slot = -1; r_arr_pos = 0; indef = r_arr_indef = r_indef;
        if (!r_arr_indef && R.declared == 0) { r_in_arr = false; r_done = true; }
        return r_arr_indef ? 0 : R.declared;
    }
    if (r_in_arr || !r_value_pending || R.val[r_cur_slot].kind != K_ARR) throw CdnsDecoderException("read_array_start() called on wrong major type");
    r_in_arr = true; r_arr_slot = r_cur_slot; r_arr_pos = 0; indef = r_arr_indef;
    uint64_t n = R.val[r_cur_slot].u;
    if (!r_arr_indef && n == 0) { r_in_arr = false; r_member_done(); }
    return r_arr_indef ? 0 : n;
}
void CdnsDecoder::read_break() {
    r_tick();
    if (!r_started && R.top == K_BRK) { r_started = true; r_done = true; return; }
    bool is_key, at_break; (void)r_next(is_key, at_break);
    if (!at_break) throw CdnsDecoderException("read_break() called on wrong major type");
    if (r_in_arr) { r_in_arr = false; if (r_arr_slot >= 0) r_member_done(); else r_done = true; }
    else r_done = true;
}
void CdnsDecoder::skip_item() {
    r_tick();
    bool is_key, at_break; int src = r_next(is_key, at_break);
    if (at_break) throw CdnsDecoderException("model: skip at a break");
    if (is_key) { r_cur_slot = r_order[r_pos]; r_value_pending = true; return; }
    if (src == SRC_NONE) { if (!r_started) { r_started = true; r_done = true; return; } throw CdnsDecoderEnd("End of input stream"); }
    r_consumed_value();                                   // an array value is skipped as a whole
}
void CdnsDecoder::skip_item(unsigned) { skip_item(); }
void CdnsDecoder::read_cbor_type(CborType&, uint8_t&) { r_misuse = true; }
uint64_t CdnsDecoder::read_int(uint8_t) { r_misuse = true; return 0; }
std::string CdnsDecoder::read_string(CborType, uint64_t, bool) { r_misuse = true; return std::string(); }
void CdnsDecoder::read_to_buffer() { r_misuse = true; }
// nested read() calls are replaced by this contract: consumes exactly one item of the right type, returns its tag
static const void* tk_take_item_obj(uint8_t tid) {
    bool was_key; int64_t key = 0; int t = r_take(false, was_key, key);
    if (tk_kind(t) != K_ITEM || tk_tid(t) != tid) throw CdnsDecoderException("model: nested item of another type");
    const void* o = tk_obj(t); r_consumed_value(); return o;
}
static uint64_t tk_take_item(uint8_t tid) {
    bool was_key; int64_t key = 0; int t = r_take(false, was_key, key);
    if (tk_kind(t) != K_ITEM || tk_tid(t) != tid) throw CdnsDecoderException("model: nested item of another type");
    uint64_t tag = tk_u(t); r_consumed_value(); return tag;
}
