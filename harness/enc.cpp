// enc.cpp -- harnesses for the CBOR encoder (U1): C06, C10(L1).
// One step of every public write operation from an arbitrary state satisfying I_enc
// (symbolic fill level, symbolic buffer contents), against a reference RFC 8949 encoder,
// with a lazy oracle (one symbolic position in the old data, one in the new data).
#include "verif_api.cpp"
#include "cdns_encoder.cpp"
using namespace CDNS;

static const size_t BS = CdnsEncoder::BUFFER_SIZE;
#ifndef ENC_MAXSTR
#define ENC_MAXSTR (3 * CDNS_VERIF_ENCODER_BUFFER_SIZE + 2)
#endif

struct Sink : BaseCborOutputWriter {
    uint64_t total;     // bytes received so far
    uint64_t k1, k2;    // absolute positions to capture
    uint8_t b1, b2; bool h1, h2;
    unsigned writes;
    bool rotated; uint64_t total_at_rotate; unsigned writes_after_rotate;
    void write(const char* p, std::size_t n) override {
        if (k1 >= total && k1 - total < n) { b1 = (uint8_t)p[k1 - total]; h1 = true; }
        if (k2 >= total && k2 - total < n) { b2 = (uint8_t)p[k2 - total]; h2 = true; }
        total += n; writes++;
        if (rotated) writes_after_rotate++;
    }
    void rotate_output(const boost::any&) override { rotated = true; total_at_rotate = total; }
};

// reference: RFC 8949 preferred head
static unsigned ref_head(uint8_t major, uint64_t v, uint8_t out[9]) {
    if (v <= 23) { out[0] = major | (uint8_t)v; return 1; }
    if (v <= 0xff) { out[0] = major | 24; out[1] = (uint8_t)v; return 2; }
    if (v <= 0xffff) { out[0] = major | 25; out[1] = (uint8_t)(v >> 8); out[2] = (uint8_t)v; return 3; }
    if (v <= 0xffffffffULL) { out[0] = major | 26; for (int i = 0; i < 4; i++) out[1 + i] = (uint8_t)(v >> (8 * (3 - i))); return 5; }
    out[0] = major | 27; for (int i = 0; i < 8; i++) out[1 + i] = (uint8_t)(v >> (8 * (7 - i))); return 9;
}
static unsigned ref_int(int64_t v, uint8_t out[9]) {
    // CBOR negative n is encoded as major 1 with argument -1 - n
    if (v < 0) return ref_head(0x20, (uint64_t)(-(v + 1)), out);
    return ref_head(0x00, (uint64_t)v, out);
}

union EncBox { CdnsEncoder e; EncBox() {} ~EncBox() {} };

struct Ctx {
    EncBox box; Sink sink;
    uint64_t S0; size_t fill; uint8_t old_k; size_t i_old;
};

static void setup(Ctx& c) {
    CdnsEncoder& e = c.box.e;
    c.fill = (size_t)vs_range(BS);
    c.S0 = nondet_u32();
    for (size_t i = 0; i < BS; i++) e.m_buffer[i] = nondet_u8();
    e.m_cos.m_p = &c.sink;
    e.m_p = e.m_buffer + c.fill;
    e.m_avail = BS - c.fill;
    c.sink.total = c.S0; c.sink.writes = 0; c.sink.h1 = c.sink.h2 = false; c.sink.rotated = false; c.sink.writes_after_rotate = 0;
    c.sink.b1 = c.sink.b2 = 0;
    // position in the old (still buffered) data
    c.i_old = (size_t)vs_range(BS);
    c.old_k = c.i_old < c.fill ? e.m_buffer[c.i_old] : 0;
    c.sink.k1 = c.S0 + c.i_old;
}

// byte of the abstract output stream (sink ++ buffer) at absolute position pos, after the call
static bool stream_byte(Ctx& c, uint64_t pos, bool captured, uint8_t cap, uint8_t& out) {
    CdnsEncoder& e = c.box.e;
    if (pos < c.sink.total) { out = cap; return captured; }
    size_t off = (size_t)(pos - c.sink.total);
    if (off >= (size_t)(e.m_p - e.m_buffer)) return false;
    out = e.m_buffer[off];
    return true;
}

static void check_common(Ctx& c, uint64_t ret, uint64_t explen, unsigned max_flushes) {
    CdnsEncoder& e = c.box.e;
    // I_enc preserved
    __verif_assert(e.m_p >= e.m_buffer && (size_t)(e.m_p - e.m_buffer) <= BS, "I_enc: m_p within buffer");
    __verif_assert((size_t)(e.m_p - e.m_buffer) + e.m_avail == BS, "I_enc: fill + m_avail == BUFFER_SIZE");
    __verif_assert(ret == explen, "return value == length of the reference encoding (C10)");
    __verif_assert(c.sink.total + (uint64_t)(e.m_p - e.m_buffer) == c.S0 + c.fill + explen, "output stream grew by exactly the reference length");
    __verif_assert(c.sink.writes <= max_flushes, "no more flushes than expected");
    if (c.i_old < c.fill) {
        uint8_t b; bool ok = stream_byte(c, c.S0 + c.i_old, c.sink.h1, c.sink.b1, b);
        __verif_assert(ok && b == c.old_k, "previously buffered byte unchanged and in order");
    }
    __verif_observe(ret); __verif_observe(c.sink.total); __verif_observe(c.sink.writes); __verif_observe((uint64_t)(e.m_p - e.m_buffer));
}

static void check_new_byte(Ctx& c, uint64_t j, uint8_t expect) {
    uint8_t b; bool ok = stream_byte(c, c.S0 + c.fill + j, c.sink.h2, c.sink.b2, b);
    __verif_assert(ok && b == expect, "appended byte j equals the RFC 8949 preferred encoding");
    __verif_observe(b);
}

#ifdef WITNESS
#define WITNESS_END() __verif_assert(false, "WITNESS: end of harness reachable")
#else
#define WITNESS_END() ((void)0)
#endif

// ---- head-only operations ------------------------------------------------------------------
// op: 0 array_start 1 indef_array 2 map_start 3 indef_map 4 break 5 bool 6 u8 7 u16 8 u32 9 u64 10 i8 11 i16 12 i32 13 i64
static void head_op(unsigned op) {
    Ctx c; setup(c);
    CdnsEncoder& e = c.box.e;
    uint64_t a = nondet_u64();
    uint8_t exp[9]; unsigned explen = 0;
    uint64_t j = vs_range(8);
    c.sink.k2 = c.S0 + c.fill + j;
    uint64_t ret = 0;
    switch (op) {
        case 0: explen = ref_head(0x80, a, exp); ret = e.write_array_start((std::size_t)a); break;
        case 1: exp[0] = 0x9f; explen = 1; ret = e.write_indef_array_start(); break;
        case 2: explen = ref_head(0xa0, a, exp); ret = e.write_map_start((std::size_t)a); break;
        case 3: exp[0] = 0xbf; explen = 1; ret = e.write_indef_map_start(); break;
        case 4: exp[0] = 0xff; explen = 1; ret = e.write_break(); break;
        case 5: exp[0] = (a & 1) ? 0xf5 : 0xf4; explen = 1; ret = e.write((bool)(a & 1)); break;
        case 6: explen = ref_head(0x00, (uint8_t)a, exp); ret = e.write((uint8_t)a); break;
        case 7: explen = ref_head(0x00, (uint16_t)a, exp); ret = e.write((uint16_t)a); break;
        case 8: explen = ref_head(0x00, (uint32_t)a, exp); ret = e.write((uint32_t)a); break;
        case 9: explen = ref_head(0x00, a, exp); ret = e.write((uint64_t)a); break;
        case 10: explen = ref_int((int8_t)a, exp); ret = e.write((int8_t)a); break;
        case 11: explen = ref_int((int16_t)a, exp); ret = e.write((int16_t)a); break;
        case 12: explen = ref_int((int32_t)a, exp); ret = e.write((int32_t)a); break;
        default: explen = ref_int((int64_t)a, exp); ret = e.write((int64_t)a); break;
    }
    check_common(c, ret, explen, 1);
    if (j < explen) check_new_byte(c, j, exp[j]);
    WITNESS_END();
}
#define HEAD_H(n, name) extern "C" void h_enc_##name(void) { head_op(n); }
HEAD_H(0, array_start) HEAD_H(1, indef_array) HEAD_H(2, map_start) HEAD_H(3, indef_map) HEAD_H(4, break_)
HEAD_H(5, bool_) HEAD_H(6, u8) HEAD_H(7, u16) HEAD_H(8, u32) HEAD_H(9, u64) HEAD_H(10, i8) HEAD_H(11, i16) HEAD_H(12, i32) HEAD_H(13, i64)

static unsigned char g_payload[ENC_MAXSTR];
// ---- string operations ---------------------------------------------------------------------
// op: 0 bytestring(ptr,n) 1 textstring(ptr,n)
static void string_op(unsigned op) {
    Ctx c; setup(c);
    CdnsEncoder& e = c.box.e;
    unsigned char* payload = g_payload;
    size_t n = (size_t)vs_range(ENC_MAXSTR);
    for (size_t i = 0; i < ENC_MAXSTR; i++) payload[i] = nondet_u8();
    uint8_t exp[9]; unsigned hl = ref_head(op == 0 ? 0x40 : 0x60, n, exp);
    uint64_t j = vs_range(ENC_MAXSTR + 8);
    c.sink.k2 = c.S0 + c.fill + j;
    uint64_t ret = op == 0 ? e.write_bytestring(payload, n) : e.write_textstring(payload, n);
    check_common(c, ret, hl + n, 2 + ENC_MAXSTR / BS + 1);
    if (j < hl + n) check_new_byte(c, j, j < hl ? exp[j] : payload[j - hl]);
    WITNESS_END();
}
extern "C" void h_enc_bytestring(void) { string_op(0); }
extern "C" void h_enc_textstring(void) { string_op(1); }

// std::string overloads: forward data()/size() unchanged (model string capacity VS_STRCAP)
static void stdstring_op(unsigned op) {
    Ctx c; setup(c);
    CdnsEncoder& e = c.box.e;
    std::string s; size_t n = (size_t)vs_range(VS_STRCAP);
    for (size_t i = 0; i < n; i++) s.push_back((char)nondet_u8());
    uint8_t exp[9]; unsigned hl = ref_head(op == 0 ? 0x40 : 0x60, n, exp);
    uint64_t j = vs_range(VS_STRCAP + 8);
    c.sink.k2 = c.S0 + c.fill + j;
    uint64_t ret = op == 0 ? e.write_bytestring(s) : e.write_textstring(s);
    check_common(c, ret, hl + n, 2 + VS_STRCAP / BS + 1);
    if (j < hl + n) check_new_byte(c, j, j < hl ? exp[j] : (uint8_t)s.m_data[j - hl]);
    WITNESS_END();
}
extern "C" void h_enc_bytestring_std(void) { stdstring_op(0); }
extern "C" void h_enc_textstring_std(void) { stdstring_op(1); }

// nullptr strings: nothing is written, 0 is returned
extern "C" void h_enc_nullstring(void) {
    Ctx c; setup(c);
    CdnsEncoder& e = c.box.e;
    size_t n = (size_t)nondet_u64();
    c.sink.k2 = 0;
    uint64_t ret = nondet_bool() ? e.write_bytestring((const unsigned char*)nullptr, n) : e.write_textstring((const unsigned char*)nullptr, n);
    check_common(c, ret, 0, 0);
    WITNESS_END();
}

// rotate_output<T>: everything buffered reaches the old sink before the writer is told to rotate
extern "C" void h_enc_rotate(void) {
    Ctx c; setup(c);
    CdnsEncoder& e = c.box.e;
    c.sink.k2 = 0;
    if (nondet_bool()) { int fd = (int)nondet_u32(); e.rotate_output(fd); }
    else { std::string name; e.rotate_output(name); }
    __verif_assert(c.sink.rotated, "writer rotate_output was called");
    __verif_assert(c.sink.total_at_rotate == c.S0 + c.fill, "all buffered bytes reached the old output before rotation");
    __verif_assert(c.sink.writes_after_rotate == 0, "no write after the rotation inside rotate_output");
    __verif_assert(e.m_p == e.m_buffer && e.m_avail == BS, "buffer empty after rotation");
    if (c.i_old < c.fill) __verif_assert(c.sink.h1 && c.sink.b1 == c.old_k, "flushed byte unchanged");
    WITNESS_END();
}
