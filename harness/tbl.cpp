// tbl.cpp -- block tables (U9/U4): C11 (hash/equality agreement, de-duplication, index stability),
// C19 (copies of tables/blocks are independent of their source).
#ifndef VS_STRCAP
#define VS_STRCAP 6
#endif
#ifndef VS_VECCAP
#define VS_VECCAP 4
#endif
#ifndef VS_MAPCAP
#define VS_MAPCAP 4
#endif
#include "prelude.h"
#include "verif_api.cpp"
#include "block.h"
using namespace CDNS;

#ifdef WITNESS
#define WITNESS_END() __verif_assert(false, "WITNESS: end of harness reachable")
#else
#define WITNESS_END() ((void)0)
#endif

// ---- symbolic values; storage that is not part of the value (absent optionals, string tails) stays arbitrary
template<class T> static void opt_int(boost::optional<T>& o) { o.m_init = nondet_bool(); o.m_val = (T)nondet_u64(); }
static void sym_string(std::string& s) {
    s.m_len = (size_t)vs_range(VS_STRCAP);
    for (size_t i = 0; i < VS_STRCAP + 1; i++) s.m_data[i] = (char)nondet_u8();     // bytes beyond size() are garbage too
}
static void sym(ClassType& v) { v.type = nondet_u16(); v.class_ = nondet_u16(); }
static void sym(Question& v) { v.name_index = nondet_u32(); v.classtype_index = nondet_u32(); }
static void sym(RR& v) { v.name_index = nondet_u32(); v.classtype_index = nondet_u32(); opt_int(v.ttl); opt_int(v.rdata_index); }
static void sym(QueryResponseSignature& v) {
    opt_int(v.server_address_index); opt_int(v.server_port); opt_int(v.qr_transport_flags); opt_int(v.qr_type); opt_int(v.qr_sig_flags);
    opt_int(v.query_opcode); opt_int(v.qr_dns_flags); opt_int(v.query_rcode); opt_int(v.query_classtype_index); opt_int(v.query_qdcount);
    opt_int(v.query_ancount); opt_int(v.query_nscount); opt_int(v.query_arcount); opt_int(v.query_edns_version); opt_int(v.query_udp_size);
    opt_int(v.query_opt_rdata_index); opt_int(v.response_rcode);
}
static void sym(MalformedMessageData& v) {
    opt_int(v.server_address_index); opt_int(v.server_port); opt_int(v.mm_transport_flags);
    v.mm_payload.m_init = nondet_bool(); sym_string(v.mm_payload.m_val);
}
static void sym(StringItem& v) { sym_string(v.data); }
static void sym(IndexListItem& v) { v.list.m_size = (size_t)vs_range(VS_VECCAP); for (size_t i = 0; i < VS_VECCAP; i++) v.list.m_data[i] = nondet_u32(); }
static void sym(AddressEventCount& v) { v.ae_type = (AddressEventTypeValues)nondet_u8(); opt_int(v.ae_code); v.ae_address_index = nondet_u32(); opt_int(v.ae_transport_flags); v.ae_count = nondet_u64(); }

template<class T> union Box { T v; Box() {} ~Box() {} };

// ---- Obl-HE: equal values hash equally (what std::unordered_map requires of Hash/KeyEqual) ---------------
template<class T> static void hash_eq() {
    Box<T> a, b; sym(a.v); sym(b.v);
    CDNS::hash<T> h;
    bool eq = (a.v == b.v);
    size_t ha = h(a.v), hb = h(b.v);
    __verif_observe(eq); __verif_observe(ha == hb);
    if (eq) __verif_assert(ha == hb, "equal keys have equal hashes (de-duplication can find the existing entry)");
    // the KeyRef wrapper used as the actual map key agrees with the value's own hash / equality
    KeyRef<T> ka(a.v), kb(b.v);
    CDNS::hash<KeyRef<T>> hk;
    __verif_assert((ka == kb) == eq, "KeyRef equality is the value's equality");
    __verif_assert(hk(ka) == ha, "KeyRef hash is the value's hash");
    WITNESS_END();
}
extern "C" void h_he_classtype(void) { hash_eq<ClassType>(); }
extern "C" void h_he_question(void) { hash_eq<Question>(); }
extern "C" void h_he_rr(void) { hash_eq<RR>(); }
extern "C" void h_he_qrsig(void) { hash_eq<QueryResponseSignature>(); }
extern "C" void h_he_mmd(void) { hash_eq<MalformedMessageData>(); }
extern "C" void h_he_stringitem(void) { hash_eq<StringItem>(); }
extern "C" void h_he_indexlist(void) { hash_eq<IndexListItem>(); }
// AddressEventCount keys: the count is not part of the identity of an event (it is the mapped value of the table)
extern "C" void h_he_aec(void) {
    Box<AddressEventCount> a, b; sym(a.v); sym(b.v);
    CDNS::hash<AddressEventCount> h;
    if (a.v == b.v) __verif_assert(h(a.v) == h(b.v), "equal address-event keys have equal hashes");
    WITNESS_END();
}

// ---- Obl-EQ: operator== distinguishes values that differ in any member (incl. presence) --------------------
template<class O> static bool same_opt(const O& x, const O& y) { return x.m_init == y.m_init && (!x.m_init || x.m_val == y.m_val); }
extern "C" void h_eq_members(void) {
    { Box<ClassType> a, b; sym(a.v); sym(b.v); if (a.v == b.v) __verif_assert(a.v.type == b.v.type && a.v.class_ == b.v.class_, "ClassType == implies member-wise equal"); }
    { Box<Question> a, b; sym(a.v); sym(b.v); if (a.v == b.v) __verif_assert(a.v.name_index == b.v.name_index && a.v.classtype_index == b.v.classtype_index, "Question == implies member-wise equal"); }
    { Box<RR> a, b; sym(a.v); sym(b.v); if (a.v == b.v) __verif_assert(a.v.name_index == b.v.name_index && a.v.classtype_index == b.v.classtype_index && same_opt(a.v.ttl, b.v.ttl) && same_opt(a.v.rdata_index, b.v.rdata_index), "RR == implies member-wise equal incl. presence"); }
    { Box<QueryResponseSignature> a, b; sym(a.v); sym(b.v);
      if (a.v == b.v) __verif_assert(same_opt(a.v.server_address_index, b.v.server_address_index) && same_opt(a.v.server_port, b.v.server_port) && same_opt(a.v.qr_transport_flags, b.v.qr_transport_flags)
          && same_opt(a.v.qr_type, b.v.qr_type) && same_opt(a.v.qr_sig_flags, b.v.qr_sig_flags) && same_opt(a.v.query_opcode, b.v.query_opcode) && same_opt(a.v.qr_dns_flags, b.v.qr_dns_flags)
          && same_opt(a.v.query_rcode, b.v.query_rcode) && same_opt(a.v.query_classtype_index, b.v.query_classtype_index) && same_opt(a.v.query_qdcount, b.v.query_qdcount)
          && same_opt(a.v.query_ancount, b.v.query_ancount) && same_opt(a.v.query_nscount, b.v.query_nscount) && same_opt(a.v.query_arcount, b.v.query_arcount)
          && same_opt(a.v.query_edns_version, b.v.query_edns_version) && same_opt(a.v.query_udp_size, b.v.query_udp_size) && same_opt(a.v.query_opt_rdata_index, b.v.query_opt_rdata_index)
          && same_opt(a.v.response_rcode, b.v.response_rcode), "QueryResponseSignature == implies member-wise equal incl. presence"); }
    { Box<MalformedMessageData> a, b; sym(a.v); sym(b.v);
      if (a.v == b.v) __verif_assert(same_opt(a.v.server_address_index, b.v.server_address_index) && same_opt(a.v.server_port, b.v.server_port) && same_opt(a.v.mm_transport_flags, b.v.mm_transport_flags)
          && a.v.mm_payload.m_init == b.v.mm_payload.m_init && (!a.v.mm_payload.m_init || a.v.mm_payload.m_val == b.v.mm_payload.m_val), "MalformedMessageData == implies member-wise equal incl. presence"); }
    WITNESS_END();
}

// ---- Obl-T: BlockTable histories: k <= 3 additions of symbolic values, then queries -------------------------
template<class T> static void table_history() {
    BlockTable<T> t;
    Box<T> v[3]; index_t idx[3];
    unsigned k = 1 + (unsigned)vs_range(2);
    for (unsigned i = 0; i < 3; i++) sym(v[i].v);
    size_t distinct = 0;
    for (unsigned i = 0; i < 3; i++) {
        if (i < k) {
            size_t before = t.size();
            bool dup = false;
            for (unsigned j = 0; j < i; j++) if (v[j].v == v[i].v) dup = true;
            idx[i] = t.add(v[i].v);
            __verif_assert(idx[i] < t.size(), "returned index addresses an existing entry");
            __verif_assert(t[idx[i]] == v[i].v, "returned index denotes an entry equal to the value added");
            if (dup) __verif_assert(t.size() == before, "adding an equal value again does not grow the table");
            else { __verif_assert(t.size() == before + 1 && idx[i] == before, "a new value is appended and gets the next index"); distinct++; }
            for (unsigned j = 0; j < i; j++) {
                __verif_assert((idx[j] == idx[i]) == (v[j].v == v[i].v), "equal values share an index, distinct values get distinct indices");
                __verif_assert(t[idx[j]] == v[j].v, "previously returned indices keep denoting the same value");
            }
        }
    }
    __verif_assert(t.size() == distinct, "no table ever contains two equal entries");
    // find agrees with add
    index_t f = 0; Box<T> q; sym(q.v);
    bool found = t.find(q.v, f);
    bool present = false;
    for (unsigned i = 0; i < 3; i++) if (i < k && v[i].v == q.v) present = true;
    __verif_assert(found == present, "find() succeeds exactly for values that were added");
    if (found) __verif_assert(f < t.size() && t[f] == q.v, "find() returns the index of an equal entry");
    // out-of-range access is refused by exception
    bool threw = false;
    try { (void)t[(index_t)t.size()]; } catch (std::runtime_error&) { threw = true; }
    __verif_assert(threw, "operator[] past the end throws");
    // clear
    t.clear();
    __verif_assert(t.size() == 0, "clear() empties the table");
    __verif_assert(!t.find(v[0].v, f), "after clear() nothing of the previous contents is visible");
    index_t again = t.add(v[0].v);
    __verif_assert(again == 0 && t.size() == 1, "after clear() indices start again at 0");
    WITNESS_END();
}
extern "C" void h_tbl_classtype(void) { table_history<ClassType>(); }
extern "C" void h_tbl_rr(void) { table_history<RR>(); }
extern "C" void h_tbl_question(void) { table_history<Question>(); }
extern "C" void h_tbl_mmd(void) { table_history<MalformedMessageData>(); }

// string / index-list tables are used through CdnsBlock::add_ip_address / add_question_list (reinterpret_cast keys)
extern "C" void h_tbl_block_strings(void) {
    Box<CdnsBlock> bb; new (&bb.v) CdnsBlock();
    CdnsBlock& b = bb.v;
    std::string s[2]; sym_string(s[0]); sym_string(s[1]);
    index_t i0 = b.add_ip_address(s[0]);
    index_t i1 = b.add_ip_address(s[1]);
    index_t i2 = b.add_ip_address(s[0]);
    __verif_assert(i0 == 0 && i2 == i0, "adding the same address again returns the same index");
    __verif_assert((i1 == i0) == (s[0] == s[1]), "equal strings share an index, distinct strings do not");
    __verif_assert(b.get_ip_address(i0) == s[0] && b.get_ip_address(i1) == s[1], "indices denote the strings added");
    std::vector<index_t> l[2];
    for (int k = 0; k < 2; k++) { size_t n = (size_t)vs_range(2); for (size_t i = 0; i < n; i++) l[k].push_back(nondet_u32()); }
    index_t q0 = b.add_question_list(l[0]);
    index_t q1 = b.add_question_list(l[1]);
    __verif_assert((q0 == q1) == (l[0] == l[1]), "equal index lists share an index, distinct lists do not");
    __verif_assert(b.get_question_list(q1) == l[1], "index denotes the list added");
    bool threw = false;
    try { (void)b.get_ip_address((index_t)nondet_u32() | 0x100); } catch (std::runtime_error&) { threw = true; }
    __verif_assert(threw, "bounds-checked getter throws for an index outside the table");
    b.clear();
    __verif_assert(b.m_ip_address.size() == 0 && b.m_qlist.size() == 0, "clear() empties the tables");
    WITNESS_END();
}

// ---- C19 Obl-V1: a copied table does not depend on its source -------------------------------------------------
template<class T> static void table_copy(int how) {
    BlockTable<T>* src = new BlockTable<T>();
    Box<T> v[2]; sym(v[0].v); sym(v[1].v);
    index_t i0 = src->add(v[0].v), i1 = src->add(v[1].v);
    size_t n = src->size();
    BlockTable<T>* dst;
    Box<T> old[2]; sym(old[0].v); sym(old[1].v);
    if (how == 0) { dst = new BlockTable<T>(*src); }                   // copy construction
    else {                                                              // copy assignment onto a table that is already in use
        dst = new BlockTable<T>();
        unsigned nold = (unsigned)vs_range(2);
        for (unsigned i = 0; i < 2; i++) if (i < nold) dst->add(old[i].v);
        *dst = *src;
        // nothing of the target's previous contents survives the assignment
        for (unsigned i = 0; i < 2; i++) if (i < nold && !(old[i].v == v[0].v) && !(old[i].v == v[1].v)) {
            index_t f0 = 0; __verif_assert(!dst->find(old[i].v, f0), "values the target held before the assignment are gone (the copy is exactly the source) (C19)");
        }
    }
    // the source is modified, cleared and destroyed
    if (nondet_bool()) src->clear();
    delete src;
    __verif_assert(dst->size() == n, "copy holds the same number of entries");
    __verif_assert((*dst)[i0] == v[0].v && (*dst)[i1] == v[1].v, "copy holds the same values at the same indices");
    index_t f = 0;
    __verif_assert(dst->find(v[1].v, f) && f == i1, "lookup in the copy finds existing values (no reference into the destroyed source)");
    __verif_assert(dst->add(v[0].v) == i0 && dst->size() == n, "de-duplicating add on the copy returns the existing index");
    Box<T> w; sym(w.v);
    bool isnew = !(w.v == v[0].v) && !(w.v == v[1].v);
    index_t iw = dst->add(w.v);
    if (isnew) __verif_assert(iw == n && dst->size() == n + 1, "a new value added to the copy is appended");
    WITNESS_END();
}
extern "C" void h_copy_tbl_ctor(void) { table_copy<ClassType>(0); }
extern "C" void h_copy_tbl_assign(void) { table_copy<ClassType>(1); }
extern "C" void h_copy_tbl_rr(void) { table_copy<RR>((int)vs_range(1)); }

// ---- C19 Obl-V2: CdnsBlock / CdnsBlockRead copies --------------------------------------------------------------
// how: 0 copy-construct 1 move-construct 2 copy-assign 3 move-assign
static void block_copy(int how) {
    CdnsBlock* src = new CdnsBlock();
    Box<ClassType> ct[2]; sym(ct[0].v); sym(ct[1].v);
    std::string ip; sym_string(ip);
    index_t c0 = src->add_classtype(ct[0].v), c1 = src->add_classtype(ct[1].v);
    index_t a0 = src->add_ip_address(ip);
    src->m_block_preamble.earliest_time = Timestamp(nondet_u64(), nondet_u64());
    Timestamp et = src->m_block_preamble.earliest_time;
    size_t nct = src->m_classtype.size();
    CdnsBlock* dst = static_cast<CdnsBlock*>(operator new(sizeof(CdnsBlock)));
    if (how == 0) new (dst) CdnsBlock(*src);
    else if (how == 1) new (dst) CdnsBlock(static_cast<CdnsBlock&&>(*src));
    else { new (dst) CdnsBlock(); if (how == 2) *dst = *src; else *dst = static_cast<CdnsBlock&&>(*src); }
    // mutate, clear and destroy the source
    if (nondet_bool()) { Box<ClassType> x; sym(x.v); src->add_classtype(x.v); }
    if (nondet_bool()) src->clear();
    delete src;
    __verif_assert(dst->m_classtype.size() == nct && dst->m_ip_address.size() == 1, "copy holds the same tables");
    __verif_assert(dst->get_classtype(c0) == ct[0].v && dst->get_classtype(c1) == ct[1].v && dst->get_ip_address(a0) == ip, "copy holds the same values at the same indices");
    __verif_assert(dst->m_block_preamble.earliest_time.m_secs == et.m_secs && dst->m_block_preamble.earliest_time.m_ticks == et.m_ticks, "copy holds the same preamble");
    __verif_assert(dst->add_classtype(ct[1].v) == c1 && dst->m_classtype.size() == nct, "de-duplicating add on the copy finds the existing entry (independent of the destroyed source)");
    __verif_assert(dst->add_ip_address(ip) == a0, "string table of the copy de-duplicates");
    WITNESS_END();
}
extern "C" void h_copy_block_ctor(void) { block_copy(0); }
extern "C" void h_copy_block_move(void) { block_copy(1); }
extern "C" void h_copy_block_assign(void) { block_copy(2); }
extern "C" void h_copy_block_moveassign(void) { block_copy(3); }
