// blkr.cpp -- block-level composition on the READ side (U4/U6): CdnsBlockRead::read and CdnsReader::read_block with every
// item-level read() replaced by its contract ("returns the value that was written": established per structure by the
// r_<X> obligations of blk.cpp): C05 (a truncated block propagates CdnsDecoderEnd, the reader's block counter moves only
// after a complete block), C01 (which member goes where, items in order, time offsets relative to this block's earliest
// time and tick rate), C08 (unknown block member skipped), C03 (parameter index from the file is range-checked).
// Directed obligations (DESIGN.md 9.3): the structure of the offered block is concrete per obligation (BLKR_SHAPE,
// BLK_FORM), all values are symbolic, the every truncation point is tried (BLKR_CUT: enumerated in the harness, the token count being a constant).
#ifndef VS_STRCAP
#define VS_STRCAP 2
#endif
#ifndef VS_VECCAP
#define VS_VECCAP 2
#endif
#ifndef VS_MAPCAP
#define VS_MAPCAP 2
#endif
#define VS_SMALL_DNS_TABLES
#include "prelude.h"
#include "verif_api.cpp"
#include "tok_model.h"
#include "block.cpp"
#include "file_preamble.cpp"
#include "timestamp.cpp"
#ifdef BLKR_WITH_READER
#include "cdns.cpp"
#endif

#ifdef WITNESS
#define WITNESS_END() __verif_assert(false, "WITNESS: end of harness reachable")
#else
#define WITNESS_END() ((void)0)
#endif
#ifndef BLK_FORM
#define BLK_FORM 0
#endif
#ifndef BLKR_SHAPE
#define BLKR_SHAPE 0       // 0: every member, parameter index 1 of 2   1: preamble only, no index   2: parameter index 2 of 2 (out of range)
#endif
#ifndef BLKR_CUT
#define BLKR_CUT 0
#endif
enum { T_BlockPreamble = 1, T_BlockStatistics, T_QR, T_AEC, T_MM, T_BlockTables };
template<class T> union Box { T v; Box() {} ~Box() {} };
union DecBox { CdnsDecoder d; DecBox() {} ~DecBox() {} };

// ---- contracts of the nested reads: one item of the right type; the value is the one that was written ------------------------------
extern "C" void stubr_BlockPreamble(BlockPreamble* self, CdnsDecoder*) { const BlockPreamble* o = (const BlockPreamble*)tk_take_item_obj(T_BlockPreamble); self->earliest_time = o->earliest_time; self->block_parameters_index = o->block_parameters_index; }
extern "C" void stubr_BlockStatistics(BlockStatistics* self, CdnsDecoder*) { const BlockStatistics* o = (const BlockStatistics*)tk_take_item_obj(T_BlockStatistics); self->processed_messages = o->processed_messages; }
extern "C" void stubr_QueryResponse(QueryResponse* self, CdnsDecoder*) { const QueryResponse* o = (const QueryResponse*)tk_take_item_obj(T_QR); self->time_offset = o->time_offset; self->client_port = o->client_port; }
extern "C" void stubr_MalformedMessage(MalformedMessage* self, CdnsDecoder*) { const MalformedMessage* o = (const MalformedMessage*)tk_take_item_obj(T_MM); self->time_offset = o->time_offset; self->client_port = o->client_port; }
extern "C" void stubr_AddressEventCount(AddressEventCount* self, CdnsDecoder*) {
    const AddressEventCount* o = (const AddressEventCount*)tk_take_item_obj(T_AEC);
    self->ae_type = o->ae_type; self->ae_code = o->ae_code; self->ae_address_index = o->ae_address_index; self->ae_transport_flags = o->ae_transport_flags; self->ae_count = o->ae_count;
}
static unsigned g_bt_reads;
extern "C" void stubr_blocktables(CdnsBlockRead*, CdnsDecoder*) { (void)tk_take_item_obj(T_BlockTables); g_bt_reads++; }
// Timestamp::add_time_offset: the arithmetic is C17's obligation; here the data flow: called on a copy of this block's earliest time
// with the record's raw offset and this block's tick rate.  The contract leaves the offset in m_ticks so that the caller can see which
// offset went to which record.
static Timestamp g_exp_earliest; static uint64_t g_exp_rate; static bool g_ato_ok = true; static unsigned g_ato_calls;
extern "C" void stub_add_time_offset(Timestamp* self, int64_t off, uint64_t rate) {
    if (self->m_secs != g_exp_earliest.m_secs || self->m_ticks != g_exp_earliest.m_ticks || rate != g_exp_rate) g_ato_ok = false;
    g_ato_calls++; self->m_ticks = (uint64_t)off;
}

// ---- the offered block ---------------------------------------------------------------------------------------------------------------------
static unsigned g_total_tokens;
static void put_items(Builder& b, int key, uint8_t tid, const void* o0, const void* o1, unsigned n) {
    int sl = tk_slot(key); b.put(key, Builder::mk(K_ARR, n));
    Tok t0 = Builder::mk(K_ITEM, 0); t0.tid = tid; t0.obj = o0; Tok t1 = Builder::mk(K_ITEM, 0); t1.tid = tid; t1.obj = o1;
    if (n > 0) b.S.arr[sl][0] = t0;
    if (n > 1) b.S.arr[sl][1] = t1;
}
static void offer(bool with_unknown) {
    // delivery in ascending key order, the unknown member (if any) last; length forms fixed by BLK_FORM
    if (with_unknown) { R.ukey[0] = 9; R.val[TK_UNK0] = Builder::mk(K_OPAQUE, nondet_u64()); R.seen |= (1u << TK_UNK0); }
    unsigned n = 0, tokens = 1;
    for (unsigned sl = 0; sl < TK_NSLOT; sl++) if ((R.seen >> sl) & 1u) { r_order[n++] = (uint8_t)sl; tokens += 2; if (R.val[sl].kind == K_ARR) tokens += (unsigned)R.val[sl].u + ((BLK_FORM & 2) ? 1 : 0); }
#ifdef BLKR_REVERSE
    // the same members in descending key order (block preamble last): CBOR maps are unordered (C08)
    for (unsigned i = 0; i < n / 2; i++) { uint8_t t = r_order[i]; r_order[i] = r_order[n - 1 - i]; r_order[n - 1 - i] = t; }
#endif
    r_nmem = n; r_indef = (BLK_FORM & 1) != 0; r_arr_indef = (BLK_FORM & 2) != 0;
    if (r_indef) tokens += 1;
    g_total_tokens = tokens;
}
enum RExc { RX_NONE = 0, RX_END, RX_DEC, RX_STD, RX_OTHER };
#define R_CALL(stmt) RExc x = RX_NONE; try { stmt; } catch (CdnsDecoderEnd&) { x = RX_END; } catch (CdnsDecoderException&) { x = RX_DEC; } catch (std::exception&) { x = RX_STD; } catch (...) { x = RX_OTHER; }

struct Src {
    BlockPreamble pre; BlockStatistics st; QueryResponse q[2]; MalformedMessage m[1]; AddressEventCount a[1];
};
static void sym_src(Src& s) {
    new (&s.pre) BlockPreamble(); new (&s.st) BlockStatistics(); new (&s.q[0]) QueryResponse(); new (&s.q[1]) QueryResponse(); new (&s.m[0]) MalformedMessage(); new (&s.a[0]) AddressEventCount();
    s.pre.earliest_time.m_secs = nondet_u64(); s.pre.earliest_time.m_ticks = nondet_u64();
    s.st.processed_messages = nondet_u64();
    for (unsigned i = 0; i < 2; i++) { s.q[i].time_offset.m_init = nondet_bool(); s.q[i].time_offset.m_val.m_secs = nondet_u64(); s.q[i].time_offset.m_val.m_ticks = 0; s.q[i].client_port = nondet_u16(); }
    s.m[0].time_offset.m_init = nondet_bool(); s.m[0].time_offset.m_val.m_secs = nondet_u64(); s.m[0].time_offset.m_val.m_ticks = 0; s.m[0].client_port = nondet_u16();
    s.a[0].ae_type = (AddressEventTypeValues)nondet_u8(); s.a[0].ae_address_index = nondet_u32(); s.a[0].ae_count = nondet_u64();
}

extern "C" void h_r_block(void) {
    Src* sp = new Src; Src& s = *sp; sym_src(s);
    std::vector<BlockParameters>* pv = new std::vector<BlockParameters>(); std::vector<BlockParameters>& params = *pv;
    params.push_back(BlockParameters()); params.push_back(BlockParameters());
    params.m_data[0].storage_parameters.ticks_per_second = nondet_u64(); params.m_data[1].storage_parameters.ticks_per_second = nondet_u64();
    // the parameter sets carry arbitrary hint masks: what a block holds is decided by the file, not by the hints of its parameter set
    for (unsigned k = 0; k < 2; k++) { StorageHints& h = params.m_data[k].storage_parameters.storage_hints;
        h.query_response_hints = nondet_u32(); h.query_response_signature_hints = nondet_u32(); h.rr_hints = nondet_u8(); h.other_data_hints = nondet_u8(); }
    unsigned nq = 0, nm = 0, na = 0; bool with_stats = false, with_tables = false, with_unknown = false; int idx = -1;
#if BLKR_SHAPE == 0
    nq = 2; nm = 1; na = 1; with_stats = true; with_tables = true; with_unknown = true; idx = 1;
#elif BLKR_SHAPE == 2
    idx = 2; nq = 1;
#endif
    if (idx >= 0) s.pre.block_parameters_index = (index_t)idx;
    tk_rreset(); { Builder bd(R);
        bd.item(0, s.pre, T_BlockPreamble, 0);
        if (with_stats) bd.item(1, s.st, T_BlockStatistics, 0);
        if (with_tables) bd.item(2, s, T_BlockTables, 0);
        if (nq) put_items(bd, 3, T_QR, &s.q[0], &s.q[1], nq);
        if (na) put_items(bd, 4, T_AEC, &s.a[0], &s.a[0], na);
        if (nm) put_items(bd, 5, T_MM, &s.m[0], &s.m[0], nm); }
    offer(with_unknown);
    bool cut = false;
    unsigned use = (idx == 1) ? 1 : 0;
#if BLKR_CUT
    // every truncation point, one after the other (a symbolic cut point makes every decoder call a feasible throw site with its own
    // clean-up path: no verdict in 900 s; the token count is a constant here, so the cut points can be enumerated)
    for (unsigned c = 0; c < 40; c++) if (c < g_total_tokens) {
        r_pos = 0; r_value_pending = false; r_tokens = 0; r_in_arr = false; r_arr_slot = 0; r_arr_pos = 0; r_done = false; r_cur_slot = 0; r_started = false; r_cut = c;
        g_exp_earliest = s.pre.earliest_time; g_exp_rate = params.m_data[use].storage_parameters.ticks_per_second;
        CdnsBlockRead* bc = new CdnsBlockRead(); DecBox dc;
        R_CALL(bc->read(dc.d, params))
        __verif_assert(x == RX_END, "truncated block: CdnsDecoderEnd propagates to the caller, no block is returned (C05)");
        __verif_assert(!r_misuse, "schema code uses only the public decoder operations");
    }
    cut = true;
    WITNESS_END();
    return;
#endif
    g_exp_earliest = s.pre.earliest_time; g_exp_rate = params.m_data[use].storage_parameters.ticks_per_second; g_ato_ok = true; g_ato_calls = 0; g_bt_reads = 0;
    CdnsBlockRead* b = new CdnsBlockRead(); DecBox d;
    R_CALL(b->read(d.d, params))
    __verif_assert(!r_misuse, "schema code uses only the public decoder operations");
    __verif_assert(x != RX_OTHER && x != RX_STD, "failure only through the decoder's exceptions (C03)");
    if (cut) __verif_assert(x == RX_END, "truncated block: CdnsDecoderEnd propagates to the caller, no block is returned (C05)");
    else if (idx == 2) __verif_assert(x == RX_DEC, "a block-parameters index outside the file's parameter list is refused (C03)");
    else {
        __verif_assert(x == RX_NONE, "well-formed block (with an unknown member) is accepted (C08)");
        __verif_assert(r_done && r_tokens == g_total_tokens, "exactly the one block item is consumed");
        __verif_assert(b->m_block_preamble.earliest_time.m_secs == s.pre.earliest_time.m_secs && b->m_block_preamble.earliest_time.m_ticks == s.pre.earliest_time.m_ticks, "block preamble read into the block (C01)");
        __verif_assert(b->m_block_parameters.storage_parameters.ticks_per_second == g_exp_rate, "the block uses the parameter set its preamble names (the first one when it names none) (C09/C01)");
        __verif_assert(b->m_block_statistics.m_init == with_stats && (!with_stats || b->m_block_statistics.m_val.processed_messages == s.st.processed_messages), "statistics present iff written (C01)");
        __verif_assert(g_bt_reads == (with_tables ? 1u : 0u), "block tables read iff present");
        __verif_assert(b->m_query_responses.size() == nq && b->m_malformed_messages.size() == nm && b->m_address_event_counts.size() == na, "as many records as written, per kind (C01)");
        unsigned timed = 0;
        for (unsigned i = 0; i < 2; i++) if (i < nq) {
            QueryResponse& q = b->m_query_responses.m_data[i];
            __verif_assert(q.client_port == s.q[i].client_port, "query/responses in file order (C01)");
            __verif_assert(q.time_offset.m_init == s.q[i].time_offset.m_init, "record time present iff written");
            if (q.time_offset.m_init) { timed++; __verif_assert(q.time_offset.m_val.m_secs == s.pre.earliest_time.m_secs && q.time_offset.m_val.m_ticks == s.q[i].time_offset.m_val.m_secs, "record time = this block's earliest time + this record's offset (C01/C17)"); }
        }
        if (nm) {
            MalformedMessage& m = b->m_malformed_messages.m_data[0];
            __verif_assert(m.client_port == s.m[0].client_port && m.time_offset.m_init == s.m[0].time_offset.m_init, "malformed messages read back (C01)");
            if (m.time_offset.m_init) { timed++; __verif_assert(m.time_offset.m_val.m_secs == s.pre.earliest_time.m_secs && m.time_offset.m_val.m_ticks == s.m[0].time_offset.m_val.m_secs, "malformed message time = earliest + offset (C01/C17)"); }
        }
        __verif_assert(g_ato_ok && g_ato_calls == timed, "every timed record is converted exactly once, from this block's earliest time at this block's tick rate (C17)");
        if (na) __verif_assert(b->m_address_event_counts.m_slots[0].second == s.a[0].ae_count && b->m_address_event_counts.m_slots[0].first.ae_address_index == s.a[0].ae_address_index, "address event count stored under its key (C01)");
        __verif_assert(b->m_qr_read == 0 && b->m_mm_read == 0, "record cursors start at the first record");
    }
    WITNESS_END();
}

#ifdef BLKR_WITH_READER
// ---- CdnsReader::read_block: one step from an arbitrary reader state ------------------------------------------------------------------
// offered: 0 a complete minimal block   1 the break closing the blocks array   2 nothing (end of input)   3 a block truncated at a symbolic point
#ifndef BLKR_OFFER
#define BLKR_OFFER 0
#endif
#ifndef BLKR_CUTAT
#define BLKR_CUTAT 0      // offer 3: the block is truncated after this many tokens (one obligation per cut point: the minimal block has 6 tokens)
#endif
extern "C" void h_reader_block(void) {
    Src* sp = new Src; Src& s = *sp; sym_src(s);
    Box<CdnsReader>* rb = new Box<CdnsReader>(); CdnsReader& rd = rb->v;
    new (&rd.m_file_preamble) FilePreamble();
    rd.m_file_preamble.m_block_parameters.m_data[0].storage_parameters.ticks_per_second = nondet_u64();
    { StorageHints& h = rd.m_file_preamble.m_block_parameters.m_data[0].storage_parameters.storage_hints;
      h.query_response_hints = nondet_u32(); h.query_response_signature_hints = nondet_u32(); h.rr_hints = nondet_u8(); h.other_data_hints = nondet_u8(); }
    rd.m_blocks_count = nondet_u64(); rd.m_blocks_read = nondet_u64(); rd.m_indef_blocks = nondet_bool();
    __verif_assume(rd.m_blocks_read <= rd.m_blocks_count || rd.m_indef_blocks);
    __verif_assume(rd.m_blocks_read < ~0ULL);
    uint64_t read0 = rd.m_blocks_read, count0 = rd.m_blocks_count; bool indef0 = rd.m_indef_blocks;
    tk_rreset();
    if (BLKR_OFFER == 0 || BLKR_OFFER == 3) { Builder bd(R); bd.item(0, s.pre, T_BlockPreamble, 0); put_items(bd, 3, T_QR, &s.q[0], &s.q[1], 1); offer(false); }
    else if (BLKR_OFFER == 1) { tk_clear(R); R.top = K_BRK; g_total_tokens = 1; }
    else { tk_clear(R); R.top = K_BRK; r_cut = 0; g_total_tokens = 0; }
    if (BLKR_OFFER == 3) { r_cut = BLKR_CUTAT; __verif_assume(r_cut < g_total_tokens); }
    g_exp_earliest = s.pre.earliest_time; g_exp_rate = rd.m_file_preamble.m_block_parameters.m_data[0].storage_parameters.ticks_per_second; g_ato_ok = true; g_ato_calls = 0;
    bool eof = nondet_bool(); bool definite_done = !indef0 && read0 == count0;
    RExc x = RX_NONE; size_t got = 99;
    try { CdnsBlockRead blk = rd.read_block(eof); got = blk.m_query_responses.size(); }
    catch (CdnsDecoderEnd&) { x = RX_END; } catch (CdnsDecoderException&) { x = RX_DEC; } catch (std::exception&) { x = RX_STD; } catch (...) { x = RX_OTHER; }
    __verif_assert(x != RX_OTHER && x != RX_STD, "failure only through the decoder's exceptions (C03)");
    if (definite_done) {
        __verif_assert(x == RX_NONE && eof && got == 0 && r_tokens == 0 && rd.m_blocks_read == read0, "a definite-length file whose blocks were all read reports eof without touching the input (C05)");
    } else if (BLKR_OFFER == 2 || BLKR_OFFER == 3) {
        __verif_assert(x == RX_END, "input that ends inside (or before) a block: CdnsDecoderEnd, no block is returned (C05)");
        __verif_assert(rd.m_blocks_read == read0, "the block counter counts complete blocks only (C05)");
    } else if (BLKR_OFFER == 1) {
        if (indef0) __verif_assert(x == RX_NONE && eof && got == 0 && r_done && rd.m_blocks_read == read0 && !rd.m_indef_blocks && rd.m_blocks_count == read0, "the break closing an indefinite blocks array is eof; the count becomes the number of blocks read (C05/C02)");
        else __verif_assert(x != RX_NONE, "a break inside a definite-length blocks array is refused");
    } else {
        __verif_assert(x == RX_NONE && !eof && got == 1 && r_done && r_tokens == g_total_tokens, "a complete block is returned, exactly its item consumed (C01)");
        __verif_assert(rd.m_blocks_read == read0 + 1, "the block counter moves by one per complete block (C05)");
    }
    WITNESS_END();
}
#endif
