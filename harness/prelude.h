// prelude.h -- per-type capacities of the model containers; must precede every c-dns header
#pragma once
#include <cstdint>
#include <cstddef>
namespace CDNS { enum class OpCodes : uint8_t; enum class RrTypes : uint16_t; }
namespace std { template<class T> struct __vs_cap; }
#include "verif_api.h"
#include <vector>
namespace std {
// dns.h defines the default opcode / RR-type tables (6 / 90 entries) as static const vectors
#ifdef VS_SMALL_DNS_TABLES
// harnesses that never run the dynamic initialisers (entry without run_ wrapper): the default tables stay empty
template<> struct __vs_cap<CDNS::OpCodes> { static const size_t value = 2; };
template<> struct __vs_cap<CDNS::RrTypes> { static const size_t value = 2; };
#else
template<> struct __vs_cap<CDNS::OpCodes> { static const size_t value = 8; };
template<> struct __vs_cap<CDNS::RrTypes> { static const size_t value = 96; };
#endif
}
