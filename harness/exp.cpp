// exp.cpp -- CdnsExporter (U6) one step from an arbitrary valid exporter state, at document level:
//   C02 Obl-X: every output is a prefix of  [ARRAY 3, "C-DNS", preamble, ARRAY_INDEF, block*]  closed by exactly one BREAK
//              at rotation / destruction iff a block was written; an output without blocks receives nothing
//   C10: the value returned by every exporter call equals the bytes produced during that call
//   C12: a block is written exactly when an item array reaches the configured maximum; emitted blocks are non-empty and
//        within the maximum; the buffer is re-armed with the active parameter set; counters agree
//   C13 Obl-Rot: rotation closes the old output (or leaves it empty) before the writer rotates, resets the block counter,
//        keeps unexported records buffered, and the next output starts with its own header
// CdnsBlock::write, FilePreamble::write and CdnsBlock::add_* are replaced by their contracts (defined here instead of
// linking block.cpp / file_preamble.cpp): one item / "stores at most one record and reports full()".
#ifndef VS_STRCAP
#define VS_STRCAP 5
#endif
#ifndef VS_VECCAP
#define VS_VECCAP 3
#endif
#ifndef VS_MAPCAP
#define VS_MAPCAP 3
#endif
#define VS_SMALL_DNS_TABLES
#include "prelude.h"
#include "verif_api.cpp"
#include "cdns.cpp"
using namespace CDNS;

#ifdef WITNESS
#define WITNESS_END() __verif_assert(false, "WITNESS: end of harness reachable")
#else
#define WITNESS_END() ((void)0)
#endif

// ---- document acceptor (a few scalars per output; DESIGN.md 3.5) -------------------------------------------------------
enum { P_EMPTY = 0, P_ARR3, P_ID, P_PREAMBLE, P_BLOCKS, P_CLOSED, P_BAD = 9 };
static unsigned d_phase; static uint64_t d_blocks; static uint64_t d_bytes;        // current output
static uint64_t call_bytes;                                                         // produced during the call under test
static unsigned d_rotations; static bool d_bad_rotation; static unsigned d_phase_at_rotation; static uint64_t d_blocks_closed;
static size_t g_emit_nq, g_emit_na, g_emit_nm; static unsigned g_emits; static const CdnsBlock* g_emit_block;
static size_t g_hdr_params;
static std::size_t sz() { std::size_t n = 1 + (nondet_u8() & 7); d_bytes += n; call_bytes += n; return n; }

std::size_t CdnsEncoder::write_array_start(std::size_t n) { d_phase = (d_phase == P_EMPTY && n == 3) ? P_ARR3 : P_BAD; return sz(); }
std::size_t CdnsEncoder::write_textstring(const unsigned char* p, std::size_t n) {
    bool ok = d_phase == P_ARR3 && n == 5 && p[0] == 'C' && p[1] == '-' && p[2] == 'D' && p[3] == 'N' && p[4] == 'S';
    d_phase = ok ? P_ID : P_BAD; return sz();
}
std::size_t CdnsEncoder::write_indef_array_start() { d_phase = d_phase == P_PREAMBLE ? P_BLOCKS : P_BAD; return sz(); }
std::size_t CdnsEncoder::write_break() { d_phase = d_phase == P_BLOCKS ? P_CLOSED : P_BAD; return sz(); }
void CdnsEncoder::flush_buffer() {}
std::size_t CdnsEncoder::write_map_start(std::size_t) { d_phase = P_BAD; return sz(); }
std::size_t CdnsEncoder::write_bytestring(const unsigned char*, std::size_t) { d_phase = P_BAD; return sz(); }
// contracts of the schema layer (C02 Obl-W / C10 establish them for the real functions)
std::size_t FilePreamble::write(CdnsEncoder&) { d_phase = d_phase == P_ID ? P_PREAMBLE : P_BAD; g_hdr_params = m_block_parameters.size(); return sz(); }
std::size_t CdnsBlock::write(CdnsEncoder&) {
    if (d_phase == P_BLOCKS) d_blocks++; else d_phase = P_BAD;
    g_emits++; g_emit_block = this; g_emit_nq = m_query_responses.size(); g_emit_na = m_address_event_counts.size(); g_emit_nm = m_malformed_messages.size();
    return sz();
}
// add_*: stores at most one record (or none: not storable under the hints) and reports full()
static bool g_add_storable;
bool CdnsBlock::add_question_response_record(const GenericQueryResponse&, const boost::optional<BlockStatistics>&) { if (g_add_storable) m_query_responses.m_size++; return full(); }
bool CdnsBlock::add_malformed_message(const GenericMalformedMessage&, const boost::optional<BlockStatistics>&) { if (g_add_storable) m_malformed_messages.m_size++; return full(); }
bool CdnsBlock::add_address_event_count(const GenericAddressEventCount&, const boost::optional<BlockStatistics>&) { if (g_add_storable) m_address_event_counts.m_size++; return full(); }
void FilePreamble::read(CdnsDecoder&) {}
void CdnsBlockRead::read(CdnsDecoder&, std::vector<BlockParameters>&) {}

// the output writer behind the encoder
struct DocWriter : BaseCborOutputWriter {
    void write(const char*, std::size_t) override {}
    void rotate_output(const boost::any&) override {
        d_rotations++; d_phase_at_rotation = d_phase;
        if (!(d_phase == P_EMPTY || d_phase == P_CLOSED)) d_bad_rotation = true;          // an open document is being abandoned
        if (d_phase == P_CLOSED) d_blocks_closed = d_blocks;
        d_phase = P_EMPTY; d_blocks = 0; d_bytes = 0;                                         // the new output
    }
};

template<class T> union Box { T v; Box() {} ~Box() {} };
struct Ctx { Box<CdnsExporter> ex; DocWriter w; uint64_t maxitems[2]; size_t nparams; size_t nq0, na0, nm0; uint64_t bw0; index_t active; };

static uint64_t lim(uint64_t m) { return m == 0 ? 1 : m; }
// arbitrary exporter state satisfying the representation invariant
static void setup(Ctx& c, size_t nparams, index_t active, index_t cur) {
    CdnsExporter& e = c.ex.v;
    new (&e.m_file_preamble) FilePreamble();
    c.nparams = nparams;      // parameter-set indices are concrete per run (the entries enumerate them): no symbolic index into the array of large parameter objects
    e.m_file_preamble.m_block_parameters.m_size = c.nparams;
    for (unsigned i = 0; i < 2; i++) { c.maxitems[i] = vs_range(3); if (i > 0) new (&e.m_file_preamble.m_block_parameters.m_data[i]) BlockParameters(); e.m_file_preamble.m_block_parameters.m_data[i].storage_parameters.max_block_items = c.maxitems[i]; }
    c.active = active;
    // (constructed on separate paths: no symbolic index into the array of large parameter objects)
    if (cur == 0) new (&e.m_block) CdnsBlock(e.m_file_preamble.m_block_parameters.m_data[0], 0);
    else new (&e.m_block) CdnsBlock(e.m_file_preamble.m_block_parameters.m_data[1], 1);
    uint64_t m = lim(c.maxitems[cur]);
    c.nq0 = (size_t)vs_range(2); c.na0 = (size_t)vs_range(2); c.nm0 = (size_t)vs_range(2);
    __verif_assume(c.nq0 < m && c.na0 < m && c.nm0 < m);                              // invariant between calls: no array has reached the maximum
    e.m_block.m_query_responses.m_size = c.nq0; e.m_block.m_address_event_counts.m_size = c.na0; e.m_block.m_malformed_messages.m_size = c.nm0;
    e.m_encoder.m_cos.m_p = &c.w; e.m_encoder.m_p = e.m_encoder.m_buffer; e.m_encoder.m_avail = CdnsEncoder::BUFFER_SIZE;
    e.m_active_block_parameters = c.active;
    c.bw0 = vs_range(5); e.m_blocks_written = c.bw0;
    // the current output's document state agrees with the block counter
    if (c.bw0 == 0) { d_phase = P_EMPTY; d_blocks = 0; d_bytes = 0; } else { d_phase = P_BLOCKS; d_blocks = c.bw0; d_bytes = nondet_u32(); }
    call_bytes = 0; d_rotations = 0; d_bad_rotation = false; d_blocks_closed = 0; g_emits = 0; g_emit_block = nullptr; g_hdr_params = 0;
}
static void check_doc(Ctx& c) {
    CdnsExporter& e = c.ex.v;
    __verif_assert(d_phase != P_BAD, "the output stays a prefix of [ARRAY 3, 'C-DNS', preamble, ARRAY_INDEF, block*] / BREAK (C02)");
    __verif_assert(!d_bad_rotation, "an output is abandoned only closed (BREAK written) or empty (C02/C13)");
    if (d_rotations == 0) {
        __verif_assert((e.m_blocks_written == 0) == (d_phase == P_EMPTY), "an output without blocks has received nothing; with blocks it is inside the block array (C02)");
        if (e.m_blocks_written > 0) __verif_assert(d_phase == P_BLOCKS && d_blocks == e.m_blocks_written, "block counter == blocks in the current output");
    }
}
// an emitted block is non-empty and within the maximum it was armed with
static void check_emitted(uint64_t maxitems) {
    __verif_assert(g_emit_nq + g_emit_na + g_emit_nm > 0, "every emitted block is non-empty (C12)");
    __verif_assert(g_emit_nq <= lim(maxitems) && g_emit_na <= lim(maxitems) && g_emit_nm <= lim(maxitems), "no array of an emitted block exceeds the configured maximum (0 acting like 1) (C12)");
}
static void check_rearmed(Ctx& c) {
    CdnsExporter& e = c.ex.v;
    __verif_assert(e.m_block.get_item_count() == 0, "after a flush the buffered block is empty: nothing duplicated (C12)");
    __verif_assert(e.m_block.get_block_parameters_index() == c.active && e.m_block.m_block_parameters.storage_parameters.max_block_items == c.maxitems[c.active],
                   "the buffer is re-armed with the ACTIVE parameter set (C12)");
}

// ---- buffer_qr / buffer_aec / buffer_mm ------------------------------------------------------------------------------------
static void buffer_op1(unsigned kind, size_t np, index_t act, index_t cur) {
    Ctx c; setup(c, np, act, cur); CdnsExporter& e = c.ex.v;
    uint64_t armed_max = e.m_block.m_block_parameters.storage_parameters.max_block_items;
    Box<GenericQueryResponse> q; Box<GenericAddressEventCount> a; Box<GenericMalformedMessage> m;
    boost::optional<BlockStatistics> st;
    g_add_storable = nondet_bool();
    std::size_t ret = kind == 0 ? e.buffer_qr(q.v, st) : (kind == 1 ? e.buffer_aec(a.v, st) : e.buffer_mm(m.v, st));
    size_t nq1 = c.nq0 + (kind == 0 && g_add_storable), na1 = c.na0 + (kind == 1 && g_add_storable), nm1 = c.nm0 + (kind == 2 && g_add_storable);
    bool reached = nq1 >= armed_max || na1 >= armed_max || nm1 >= armed_max;          // an array reached the maximum
    bool nonempty = nq1 + na1 + nm1 > 0;
    check_doc(c);
    __verif_assert(ret == call_bytes, "buffer_* returns the bytes produced during the call (C10)");
    __verif_assert((ret != 0) == (g_emits == 1), "non-zero byte count exactly when a block was written (C12)");
    __verif_assert(g_emits == ((reached && nonempty) ? 1u : 0u), "a block is written during buffer_* exactly when an item array reaches the maximum (C12)");
    if (g_emits) {
        __verif_assert(g_emit_block == &e.m_block && g_emit_nq == nq1 && g_emit_na == na1 && g_emit_nm == nm1, "the emitted block holds exactly the previously buffered records plus the new one (C12)");
        check_emitted(armed_max); check_rearmed(c);
        __verif_assert(e.m_blocks_written == c.bw0 + 1, "block counter incremented");
        if (c.bw0 == 0) __verif_assert(g_hdr_params == c.nparams, "the first block of an output is preceded by the header with all parameter sets (C13)");
    } else {
        __verif_assert(e.get_block_qr_count() == nq1 && e.get_block_aec_count() == na1 && e.get_block_mm_count() == nm1 && e.m_blocks_written == c.bw0, "record buffered, nothing dropped, counters agree (C12)");
    }
}
#define COMBOS(call) do { call(1, 0, 0); call(2, 0, 0); call(2, 1, 0); call(2, 0, 1); call(2, 1, 1); } while (0)
static void buffer_op(unsigned kind) {
#define BCALL(np, a, cu) buffer_op1(kind, np, a, cu)
    COMBOS(BCALL);
    WITNESS_END();
}
extern "C" void h_exp_buffer_qr(void) { buffer_op(0); }
extern "C" void h_exp_buffer_aec(void) { buffer_op(1); }
extern "C" void h_exp_buffer_mm(void) { buffer_op(2); }

// ---- write_block() / write_block(block) ----------------------------------------------------------------------------------------
static void write_block1(size_t np, index_t act, index_t cur) {
    Ctx c; setup(c, np, act, cur); CdnsExporter& e = c.ex.v;
    uint64_t armed_max = e.m_block.m_block_parameters.storage_parameters.max_block_items;
    std::size_t ret = e.write_block();
    bool nonempty = c.nq0 + c.na0 + c.nm0 > 0;
    check_doc(c);
    __verif_assert(ret == call_bytes, "write_block() returns the bytes produced (C10)");
    __verif_assert(g_emits == (nonempty ? 1u : 0u) && (ret != 0) == nonempty, "empty blocks are not written; a non-empty block is written once (C02/C12)");
    if (nonempty) { check_emitted(armed_max); __verif_assert(e.m_blocks_written == c.bw0 + 1, "block counter incremented"); }
    else __verif_assert(e.m_blocks_written == c.bw0, "block counter unchanged");
    check_rearmed(c);
}
extern "C" void h_exp_write_block(void) { COMBOS(write_block1); WITNESS_END(); }
extern "C" void h_exp_write_block_ext(void) {
    Ctx c; setup(c, 2, 1, 0); CdnsExporter& e = c.ex.v;
    Box<CdnsBlock> b; new (&b.v) CdnsBlock();
    b.v.m_query_responses.m_size = (size_t)vs_range(2); b.v.m_malformed_messages.m_size = (size_t)vs_range(2);
    bool nonempty = b.v.get_item_count() > 0;
    std::size_t ret = e.write_block(b.v);
    check_doc(c);
    __verif_assert(ret == call_bytes && (ret != 0) == nonempty && g_emits == (nonempty ? 1u : 0u), "write_block(block): bytes returned == produced; empty blocks are not written (C02/C10)");
    if (nonempty) __verif_assert(g_emit_block == &b.v && e.m_blocks_written == c.bw0 + 1, "the given block is written once");
    __verif_assert(e.get_block_item_count() == c.nq0 + c.na0 + c.nm0, "the exporter's own buffer is untouched");
    WITNESS_END();
}

// ---- rotate_output ------------------------------------------------------------------------------------------------------------------
static void rotate1(size_t np, index_t act, index_t cur) {
    Ctx c; setup(c, np, act, cur); CdnsExporter& e = c.ex.v;
    bool exp = nondet_bool(); int fd = (int)nondet_u32();
    bool nonempty = c.nq0 + c.na0 + c.nm0 > 0;
    std::size_t ret = e.rotate_output(fd, exp);
    bool had_blocks = c.bw0 > 0 || (exp && nonempty);
    __verif_assert(d_phase != P_BAD && !d_bad_rotation, "rotation closes the old output (exactly one BREAK after its blocks) or leaves it empty (C02/C13)");
    __verif_assert(d_rotations == 1, "the writer is rotated exactly once");
    __verif_assert(d_phase_at_rotation == (had_blocks ? (unsigned)P_CLOSED : (unsigned)P_EMPTY), "a closing BREAK is written iff the old output holds blocks; an output without blocks receives nothing (C02)");
    if (had_blocks) __verif_assert(d_blocks_closed == c.bw0 + ((exp && nonempty) ? 1 : 0), "the old output holds exactly the blocks written to it");
    __verif_assert(ret == call_bytes, "rotate_output returns the bytes produced during the call, all of them in the old output (C10)");
    __verif_assert(e.m_blocks_written == 0 && d_phase == P_EMPTY && d_bytes == 0, "the new output starts empty, block counter reset: its first block will write a header (C13)");
    if (!exp) __verif_assert(e.get_block_qr_count() == c.nq0 && e.get_block_aec_count() == c.na0 && e.get_block_mm_count() == c.nm0, "records not exported at rotation stay buffered for the next output (C13)");
    else __verif_assert(e.get_block_item_count() == 0, "exported records are not kept (nothing repeated) (C13)");
}
extern "C" void h_exp_rotate(void) { COMBOS(rotate1); WITNESS_END(); }
// ---- destruction --------------------------------------------------------------------------------------------------------------------
extern "C" void h_exp_destroy(void) {
    Ctx c; setup(c, 2, 1, 0); CdnsExporter& e = c.ex.v;
    // the destructor body (the member destructors are the encoder's / writers' own obligations)
    uint64_t before = d_bytes;
    e.m_encoder.m_cos.m_p = nullptr;          // the writer object lives on the harness stack: not owned by this exporter
    e.CdnsExporter::~CdnsExporter();
    __verif_assert(d_phase == (c.bw0 > 0 ? (unsigned)P_CLOSED : (unsigned)P_EMPTY), "destruction closes an output that holds blocks with exactly one BREAK and leaves an empty one empty (C02)");
    if (c.bw0 == 0) __verif_assert(d_bytes == before, "an output to which no block was written receives no data at all (C02)");
    WITNESS_END();
}
// ---- parameter sets -------------------------------------------------------------------------------------------------------------------
extern "C" void h_exp_params(void) {
    Ctx c; setup(c, 1 + (size_t)vs_range(1), 0, 0); CdnsExporter& e = c.ex.v;
    index_t idx = (index_t)nondet_u32();
    bool ok = e.set_active_block_parameters(idx);
    __verif_assert(ok == (idx < c.nparams), "set_active_block_parameters accepts exactly the existing indices");
    __verif_assert(e.get_active_block_parameters() == (ok ? idx : c.active), "active set changed only on success");
    __verif_assert(e.get_block_item_count() == c.nq0 + c.na0 + c.nm0 && e.m_blocks_written == c.bw0 && call_bytes == 0, "switching the active set neither writes nor drops anything (C12)");
    WITNESS_END();
}
