// hdr.cpp -- file-level composition on the READ side (U6): CdnsReader::CdnsReader(std::istream&) / read_file_header()
// with FilePreamble::read replaced by its contract (established by the r_filepreamble_* obligations of blk.cpp).
// C03: every kind of item at every position, any string bytes (incl. >= 0x80: the toupper() precondition), any declared lengths:
//      failure only through the decoder's exceptions.  C05: input that ends inside the header: CdnsDecoderEnd.
// C08: file array and blocks array definite or indefinite.  C09/C01: preamble read into m_file_preamble, the blocks-array form and
//      count are what read_block() will use.
// The offered input is a sequence of four tokens at *constant* positions (the header reader is straight-line code), every
// attribute of every token symbolic: kind, length, indefinite flag, string bytes; truncation point symbolic (0..4).
#ifndef VS_STRCAP
#define VS_STRCAP 6
#endif
#ifndef VS_VECCAP
#define VS_VECCAP 2
#endif
#ifndef VS_MAPCAP
#define VS_MAPCAP 2
#endif
#define VS_SMALL_DNS_TABLES
#include "prelude.h"
#include "verif_api.cpp"
#include <string>
#include "cdns_encoder.h"
#include "cdns_decoder.h"
using namespace CDNS;
#include "block.cpp"
#include "file_preamble.cpp"
#include "timestamp.cpp"
#include "cdns.cpp"

#ifdef WITNESS
#define WITNESS_END() __verif_assert(false, "WITNESS: end of harness reachable")
#else
#define WITNESS_END() ((void)0)
#endif

enum HK : uint8_t { H_UINT = 0, H_NEG, H_BSTR, H_TSTR, H_ARR, H_MAP, H_BOOL, H_BRK, H_NKINDS };
// token attributes in separate scalar arrays, accessed by index (no pointers into arrays of structs: DESIGN.md 9.4); only the type-id
// position carries string bytes that matter
static uint8_t g_kind[5]; static uint64_t g_len[5]; static bool g_indef[5]; static uint8_t g_slen; static unsigned char g_s[VS_STRCAP];
static unsigned g_pos, g_cut, g_preamble_reads;
static bool g_misuse;
static uint8_t g_pre_major, g_pre_minor;

static unsigned h_next() {
    if (g_pos >= g_cut) throw CdnsDecoderEnd("End of input stream");
    if (g_pos >= 4) { g_misuse = true; throw CdnsDecoderEnd("End of input stream"); }     // the header is four items; nothing else may be consumed
    return g_pos;
}
// ---- decoder model: exactly the L1 contract (C07) for the operations the header reader uses --------------------------------------
CborType CdnsDecoder::peek_type() {
    unsigned t = h_next();
    switch (g_kind[t]) { case H_UINT: return CborType::UNSIGNED; case H_NEG: return CborType::NEGATIVE; case H_BSTR: return CborType::BYTE_STRING; case H_TSTR: return CborType::TEXT_STRING;
                         case H_ARR: return CborType::ARRAY; case H_MAP: return CborType::MAP; case H_BRK: return CborType::BREAK; default: return CborType::SIMPLE; }
}
uint64_t CdnsDecoder::read_array_start(bool& indef) {
    unsigned t = h_next();
    if (g_kind[t] != H_ARR) throw CdnsDecoderException("read_array_start() called on wrong major type");
    indef = g_indef[t]; g_pos++; return g_indef[t] ? 0 : g_len[t];
}
std::string CdnsDecoder::read_textstring() {
    unsigned t = h_next();
    if (g_kind[t] != H_TSTR) throw CdnsDecoderException("read_textstring() called on wrong major type");
    std::string s; for (unsigned i = 0; i < VS_STRCAP; i++) if (i < g_slen) s.push_back((char)g_s[i]);
    g_pos++; return s;
}
uint64_t CdnsDecoder::read_unsigned() { g_misuse = true; return 0; }
int64_t CdnsDecoder::read_negative() { g_misuse = true; return 0; }
int64_t CdnsDecoder::read_integer() { g_misuse = true; return 0; }
bool CdnsDecoder::read_bool() { g_misuse = true; return false; }
std::string CdnsDecoder::read_bytestring() { g_misuse = true; return std::string(); }
uint64_t CdnsDecoder::read_map_start(bool&) { g_misuse = true; return 0; }
void CdnsDecoder::read_break() { g_misuse = true; }
void CdnsDecoder::skip_item() { g_misuse = true; }
void CdnsDecoder::skip_item(unsigned) { g_misuse = true; }
void CdnsDecoder::read_cbor_type(CborType&, uint8_t&) { g_misuse = true; }
uint64_t CdnsDecoder::read_int(uint8_t) { g_misuse = true; return 0; }
std::string CdnsDecoder::read_string(CborType, uint64_t, bool) { g_misuse = true; return std::string(); }
void CdnsDecoder::read_to_buffer() { g_misuse = true; }
// the encoder is not used on this path
std::size_t CdnsEncoder::write_array_start(std::size_t) { return 1; }
std::size_t CdnsEncoder::write_map_start(std::size_t) { return 1; }
std::size_t CdnsEncoder::write_indef_array_start() { return 1; }
std::size_t CdnsEncoder::write_indef_map_start() { return 1; }
std::size_t CdnsEncoder::write_break() { return 1; }
std::size_t CdnsEncoder::write_bytestring(const unsigned char*, std::size_t) { return 1; }
std::size_t CdnsEncoder::write_textstring(const unsigned char*, std::size_t) { return 1; }
std::size_t CdnsEncoder::write(bool) { return 1; }
std::size_t CdnsEncoder::write(uint8_t) { return 1; }
std::size_t CdnsEncoder::write(uint16_t) { return 1; }
std::size_t CdnsEncoder::write(uint32_t) { return 1; }
std::size_t CdnsEncoder::write(uint64_t) { return 1; }
std::size_t CdnsEncoder::write(int8_t) { return 1; }
std::size_t CdnsEncoder::write(int16_t) { return 1; }
std::size_t CdnsEncoder::write(int32_t) { return 1; }
std::size_t CdnsEncoder::write(int64_t) { return 1; }
void CdnsEncoder::flush_buffer() {}

// contract of FilePreamble::read: consumes exactly one map item; the value is the one that was written
extern "C" void stubr_FilePreamble(FilePreamble* self, CdnsDecoder*) {
    unsigned t = h_next();
    if (g_kind[t] != H_MAP) throw CdnsDecoderException("read_map_start() called on wrong major type");
    g_pos++; g_preamble_reads++;
    self->m_major_format_version = g_pre_major; self->m_minor_format_version = g_pre_minor;
}
// C standard 7.4: the argument of toupper() must be representable as unsigned char or equal EOF
static bool g_toupper_pre_ok = true;
extern "C" int ext_toupper(int c) {
    if (!(c == -1 || (c >= 0 && c <= 255))) g_toupper_pre_ok = false;
    return (c >= 'a' && c <= 'z') ? c - ('a' - 'A') : c;
}

enum RExc { RX_NONE = 0, RX_END, RX_DEC, RX_STD, RX_OTHER };
union RdBox { CdnsReader r; RdBox() {} ~RdBox() {} };

extern "C" void h_reader_header(void) {
    for (unsigned i = 0; i < 4; i++) {
        g_kind[i] = nondet_u8(); __verif_assume(g_kind[i] < H_NKINDS);
        g_len[i] = nondet_u64(); g_indef[i] = nondet_bool();
    }
    g_slen = nondet_u8(); __verif_assume(g_slen <= VS_STRCAP);
    for (unsigned k = 0; k < VS_STRCAP; k++) g_s[k] = nondet_u8();
    g_cut = nondet_u8(); __verif_assume(g_cut <= 5);
    g_pos = 0; g_misuse = false; g_preamble_reads = 0; g_pre_major = nondet_u8(); g_pre_minor = nondet_u8(); g_toupper_pre_ok = true;
    // reference verdict, written from RFC 8618 section 7.3 / RFC 8949: File = [ "C-DNS", FilePreamble, [* Block] ], arrays in either length form
    static const char ID[5] = {'C', '-', 'D', 'N', 'S'};
    bool exact = g_slen == 5, ci = g_slen == 5;
    for (unsigned k = 0; k < 5; k++) { unsigned char c = g_s[k]; if (c != (unsigned char)ID[k]) exact = false; unsigned char u = (c >= 'a' && c <= 'z') ? (unsigned char)(c - 32) : c; if (u != (unsigned char)ID[k]) ci = false; }
    bool kinds_ok = g_kind[0] == H_ARR && g_kind[1] == H_TSTR && g_kind[2] == H_MAP && g_kind[3] == H_ARR;
    bool wellformed = kinds_ok && (g_indef[0] || g_len[0] == 3) && exact && g_cut >= 4;
    // first event in input order: end of input before a malformed token is seen => End
    bool trunc_first = g_cut < 4;
    for (unsigned i = 0; i < 4; i++) if (i < g_cut && i < 4) {
        bool bad = (i == 0 && (g_kind[0] != H_ARR || (!g_indef[0] && g_len[0] != 3))) || (i == 1 && (g_kind[1] != H_TSTR || !ci)) || (i == 2 && g_kind[2] != H_MAP) || (i == 3 && g_kind[3] != H_ARR);
        if (bad) trunc_first = false;
    }
    std::istream* in = new std::istream();
    RdBox* box = new RdBox(); RExc x = RX_NONE;
    try { new (&box->r) CdnsReader(*in); }
    catch (CdnsDecoderEnd&) { x = RX_END; } catch (CdnsDecoderException&) { x = RX_DEC; } catch (std::exception&) { x = RX_STD; } catch (...) { x = RX_OTHER; }
    __verif_assert(!g_misuse, "the header reader consumes the four header items only, through the public decoder operations");
    __verif_assert(g_toupper_pre_ok, "toupper() is called with a value representable as unsigned char (C03: no undefined behaviour on untrusted bytes)");
    __verif_assert(x != RX_OTHER && x != RX_STD, "failure only through the decoder's exceptions (C03)");
    if (wellformed) __verif_assert(x == RX_NONE, "a well-formed file header (file array and blocks array in either length form) is accepted (C08)");
    if (trunc_first) __verif_assert(x == RX_END, "input that ends inside the file header: CdnsDecoderEnd (C05)");
    if (!kinds_ok && g_cut >= 4) __verif_assert(x != RX_NONE, "an item of the wrong kind in the header is refused (C03)");
    if (x == RX_NONE) {
        CdnsReader& rd = box->r;
        __verif_assert(g_pos == 4 && g_preamble_reads == 1, "exactly the four header items are consumed, the preamble once");
        __verif_assert(rd.m_file_preamble.m_major_format_version == g_pre_major && rd.m_file_preamble.m_minor_format_version == g_pre_minor, "the preamble is read into m_file_preamble (C09)");
        __verif_assert(rd.m_indef_blocks == g_indef[3] && (g_indef[3] || rd.m_blocks_count == g_len[3]), "form and length of the blocks array are what read_block() will use (C01/C05)");
        __verif_assert(rd.m_blocks_read == 0, "no block counted before one is read");
    }
    WITNESS_END();
}
