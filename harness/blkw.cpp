// blkw.cpp -- block-level composition of the schema code (U4): CdnsBlock::write_blocktables and CdnsBlock::write with every
// item-level write() replaced by its contract (one tagged item): C02 (declared counts == members, every key has a value),
// C10 (sum of sizes), C01 (which table / array goes under which RFC 8618 key, items in order).
#ifndef VS_STRCAP
#define VS_STRCAP 2
#endif
#ifndef VS_VECCAP
#define VS_VECCAP 2
#endif
#ifndef VS_MAPCAP
#define VS_MAPCAP 2
#endif
#define VS_SMALL_DNS_TABLES
#include "prelude.h"
#include "verif_api.cpp"
#include "tok_model.h"
#include "block.cpp"
#include "file_preamble.cpp"
#include "timestamp.cpp"

#ifdef WITNESS
#define WITNESS_END() __verif_assert(false, "WITNESS: end of harness reachable")
#else
#define WITNESS_END() ((void)0)
#endif
enum { T_ClassType = 1, T_QRSig, T_Question, T_RR, T_MMD, T_StringItem, T_IndexListItem, T_BlockPreamble, T_BlockStatistics, T_QR, T_AEC, T_MM, T_BlockTables };
#define STUBW(T, TID) extern "C" std::size_t stubw_##T(T* self, CdnsEncoder*) { return tk_emit_item(TID, self, 0); }
STUBW(ClassType, T_ClassType) STUBW(QueryResponseSignature, T_QRSig) STUBW(Question, T_Question) STUBW(RR, T_RR) STUBW(MalformedMessageData, T_MMD)
STUBW(StringItem, T_StringItem) STUBW(IndexListItem, T_IndexListItem) STUBW(BlockPreamble, T_BlockPreamble) STUBW(BlockStatistics, T_BlockStatistics)
// the address-event array is written from temporaries (key + count): identity is not comparable, only kind and number
extern "C" std::size_t stubw_AddressEventCount(AddressEventCount*, CdnsEncoder*) { return tk_emit_item(T_AEC, nullptr, 0); }
static const Timestamp* g_w_earliest; static uint64_t g_w_tps; static bool g_w_args_ok = true;
extern "C" std::size_t stubw_QueryResponse(QueryResponse* self, CdnsEncoder*, const Timestamp* earliest, const uint64_t* tps) {
    if (earliest != g_w_earliest || *tps != g_w_tps) g_w_args_ok = false;
    return tk_emit_item(T_QR, self, 0);
}
extern "C" std::size_t stubw_MalformedMessage(MalformedMessage* self, CdnsEncoder*, const Timestamp* earliest, const uint64_t* tps) {
    if (earliest != g_w_earliest || *tps != g_w_tps) g_w_args_ok = false;
    return tk_emit_item(T_MM, self, 0);
}
static std::size_t g_bt_fields; static bool g_bt_called;
extern "C" std::size_t stubw_blocktables(CdnsBlock* self, CdnsEncoder*, std::size_t* fields) { g_bt_called = true; g_bt_fields = *fields; return tk_emit_item(T_BlockTables, self, 0); }

template<class T> union Box { T v; Box() {} ~Box() {} };
union EncBox { CdnsEncoder e; EncBox() {} ~EncBox() {} };

template<class TBL> static void put_table(Builder& b, int key, TBL& t, uint8_t tid) {
    size_t n = t.items_.m_size;
    if (n == 0) return;
    int sl = tk_slot(key); b.put(key, Builder::mk(K_ARR, n));
    for (unsigned k = 0; k < TK_NARR; k++) if (k < n) { Tok e = Builder::mk(K_ITEM, 0); e.tid = tid; e.obj = &t.items_.m_data[k]; b.S.arr[sl][k] = e; }
}
static void sym_sizes(CdnsBlock& b) {
    b.m_ip_address.items_.m_size = (size_t)vs_range(2); b.m_classtype.items_.m_size = (size_t)vs_range(2); b.m_name_rdata.items_.m_size = (size_t)vs_range(2);
    b.m_qr_sig.items_.m_size = (size_t)vs_range(2); b.m_qlist.items_.m_size = (size_t)vs_range(2); b.m_qrr.items_.m_size = (size_t)vs_range(2);
    b.m_rrlist.items_.m_size = (size_t)vs_range(2); b.m_rr.items_.m_size = (size_t)vs_range(2); b.m_malformed_message_data.items_.m_size = (size_t)vs_range(2);
    b.m_query_responses.m_size = (size_t)vs_range(2); b.m_address_event_counts.m_size = (size_t)vs_range(2); b.m_malformed_messages.m_size = (size_t)vs_range(2);
    b.m_block_statistics.m_init = nondet_bool();
    for (unsigned i = 0; i < 2; i++) { b.m_address_event_counts.m_slots[i].second = nondet_u64(); }
}

// write_blocktables: every non-empty table, and only those, as an array of its entries in order under its RFC 8618 key
extern "C" void h_w_blocktables(void) {
    Box<CdnsBlock> bb; CdnsBlock& b = bb.v; sym_sizes(b);
    Store E; { Builder bd(E);
        put_table(bd, 0, b.m_ip_address, T_StringItem); put_table(bd, 1, b.m_classtype, T_ClassType); put_table(bd, 2, b.m_name_rdata, T_StringItem);
        put_table(bd, 3, b.m_qr_sig, T_QRSig); put_table(bd, 4, b.m_qlist, T_IndexListItem); put_table(bd, 5, b.m_qrr, T_Question);
        put_table(bd, 6, b.m_rrlist, T_IndexListItem); put_table(bd, 7, b.m_rr, T_RR); put_table(bd, 8, b.m_malformed_message_data, T_MMD); }
    std::size_t fields = E.count;               // what CdnsBlock::write passes: the number of non-empty tables
    __verif_assume(fields > 0);
    tk_wreset(); w_item_arrays = true; EncBox e;
    std::size_t ret = b.write_blocktables(e.e, fields);
    __verif_assert(w_wellformed(), "block tables: one well-formed map, declared length == tables present, every array as long as declared (C02)");
    __verif_assert(ret == w_bytes, "write_blocktables returns the bytes it produced (C10)");
    __verif_assert(store_eq(W, E, true), "each non-empty table, and only those, is written under its RFC 8618 key with its entries in index order (C01/C11)");
    WITNESS_END();
}
// CdnsBlock::write: preamble, optional statistics, tables iff any is non-empty, the three item arrays iff non-empty
extern "C" void h_w_block(void) {
    Box<CdnsBlock> bb; CdnsBlock& b = bb.v; sym_sizes(b);
    b.m_block_parameters.storage_parameters.ticks_per_second = nondet_u64();
    g_w_earliest = &b.m_block_preamble.earliest_time; g_w_tps = b.m_block_parameters.storage_parameters.ticks_per_second; g_w_args_ok = true; g_bt_called = false;
    size_t ntab = !!b.m_ip_address.items_.m_size + !!b.m_classtype.items_.m_size + !!b.m_name_rdata.items_.m_size + !!b.m_qr_sig.items_.m_size + !!b.m_qlist.items_.m_size
                + !!b.m_qrr.items_.m_size + !!b.m_rrlist.items_.m_size + !!b.m_rr.items_.m_size + !!b.m_malformed_message_data.items_.m_size;
    Store E; { Builder bd(E);
        bd.item(0, b.m_block_preamble, T_BlockPreamble, 0);
        if (b.m_block_statistics.m_init) bd.item(1, b.m_block_statistics.m_val, T_BlockStatistics, 0);
        if (ntab > 0) bd.item(2, b, T_BlockTables, 0);
        size_t nq = b.m_query_responses.m_size, na = b.m_address_event_counts.m_size, nm = b.m_malformed_messages.m_size;
        if (nq) { bd.put(3, Builder::mk(K_ARR, nq)); for (unsigned k = 0; k < TK_NARR; k++) if (k < nq) { Tok t = Builder::mk(K_ITEM, 0); t.tid = T_QR; t.obj = &b.m_query_responses.m_data[k]; E.arr[3][k] = t; } }
        if (na) { bd.put(4, Builder::mk(K_ARR, na)); for (unsigned k = 0; k < TK_NARR; k++) if (k < na) { Tok t = Builder::mk(K_ITEM, 0); t.tid = T_AEC; t.obj = nullptr; E.arr[4][k] = t; } }
        if (nm) { bd.put(5, Builder::mk(K_ARR, nm)); for (unsigned k = 0; k < TK_NARR; k++) if (k < nm) { Tok t = Builder::mk(K_ITEM, 0); t.tid = T_MM; t.obj = &b.m_malformed_messages.m_data[k]; E.arr[5][k] = t; } } }
    tk_wreset(); w_item_arrays = true; EncBox e;
    std::size_t ret = b.write(e.e);
    __verif_assert(w_wellformed(), "block: one well-formed map, declared length == members present, every array as long as declared (C02)");
    __verif_assert(ret == w_bytes, "CdnsBlock::write returns the bytes it produced (C10)");
    __verif_assert(store_eq(W, E, true), "block members under their RFC 8618 keys: preamble, statistics iff set, tables iff any non-empty, item arrays iff non-empty, items in order (C01)");
    __verif_assert(g_w_args_ok, "every item is written relative to this block's earliest time and tick rate (C01)");
    if (ntab > 0) __verif_assert(g_bt_called && g_bt_fields == ntab, "write_blocktables is told the number of non-empty tables");
    WITNESS_END();
}
