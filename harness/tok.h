// tok.h -- item-level (L2) model of CdnsEncoder / CdnsDecoder for the schema code (block.cpp, file_preamble.cpp,
// timestamp.cpp, cdns.cpp).  DESIGN.md 3.5: the schema code talks to the codec only through ~25 member functions;
// here these are a token acceptor (writer side) and a token generator (reader side) with exactly the L1 contract
// that C06/C07 establish for the real codec.  Tokens live in per-key slots (keys are constants at the call sites,
// so slot indices stay concrete during symbolic execution); nothing is stored at a symbolic position.
#pragma once
#include "verif_api.h"
#include <string>

enum TKind : uint8_t { K_NONE = 0, K_UINT, K_NEG, K_BOOL, K_BSTR, K_TSTR, K_ARR, K_MAP, K_ITEM, K_OPAQUE, K_BRK };
#ifndef TK_NARR
#define TK_NARR 2
#endif
#define TK_NSLOT 22          // keys 0..16 -> 0..16, keys -1..-3 -> 17..19, two unknown members -> 20, 21
#define TK_UNK0 20

struct Tok {
    uint8_t kind;
    uint64_t u;              // UINT value / NEG argument n (value -1-n) / BOOL / array length / item tag
    uint8_t slen; unsigned char s[VS_STRCAP];
    uint8_t tid; const void* obj;    // K_ITEM: type id, tag in u, source object
};
struct Store {
    uint8_t top;             // K_MAP, K_ARR or a scalar kind: what the single item is
    bool started;
    uint64_t declared;       // declared number of pairs / elements
    uint32_t count;          // pairs / elements actually present
    uint32_t seen;           // bit per slot
    Tok val[TK_NSLOT];
    Tok arr[TK_NSLOT][TK_NARR];      // elements of array-valued members (slot of the member), or of a top-level array (slot 0)
    Tok top_tok;             // scalar top-level item
    bool bad;                // malformed emission (duplicate key, non-integer key, stray token, array overflow of the model)
    int64_t ukey[2];         // keys of the unknown members (reader side)
};

static inline int tk_slot(int64_t key) { return key >= 0 ? (key <= 16 ? (int)key : -1) : (key >= -3 ? (int)(16 - key) : -1); }
static inline void tk_clear(Store& S) { S.top = K_NONE; S.started = false; S.declared = 0; S.count = 0; S.seen = 0; S.bad = false; S.top_tok.kind = K_NONE; }

static inline bool tok_eq(const Tok& a, const Tok& b, bool by_obj) {
    if (a.kind != b.kind) return false;
    switch (a.kind) {
        case K_UINT: case K_NEG: case K_BOOL: case K_ARR: return a.u == b.u;
        case K_BSTR: case K_TSTR: {
            if (a.slen != b.slen) return false;
            for (unsigned i = 0; i < VS_STRCAP; i++) if (i < a.slen && a.s[i] != b.s[i]) return false;
            return true; }
        case K_ITEM: return a.tid == b.tid && (by_obj ? a.obj == b.obj : a.u == b.u);
        default: return true;
    }
}
// same single item: same kind, same members (presence, kind, value), same array contents
static inline bool store_eq(const Store& A, const Store& B, bool by_obj) {
    if (A.top != B.top || A.started != B.started) return false;
    if (A.top == K_MAP) {
        if (A.seen != B.seen) return false;
        for (int i = 0; i < TK_NSLOT; i++) if (A.seen & (1u << i)) {
            if (!tok_eq(A.val[i], B.val[i], by_obj)) return false;
            if (A.val[i].kind == K_ARR) for (unsigned k = 0; k < TK_NARR; k++) if (k < A.val[i].u && !tok_eq(A.arr[i][k], B.arr[i][k], by_obj)) return false;
        }
        return true;
    }
    if (A.top == K_ARR) {
        if (A.declared != B.declared) return false;
        for (unsigned k = 0; k < TK_NARR; k++) if (k < A.declared && !tok_eq(A.arr[0][k], B.arr[0][k], by_obj)) return false;
        return true;
    }
    return tok_eq(A.top_tok, B.top_tok, by_obj);
}

// ---- builder: the independent RFC 8618 reference (key numbers and value kinds written out here, not taken from
// format_specification.h); used as expected output of write(), as input of read() and to compare values after read()
#define TID_SINT 200
struct Builder {
    Store& S;
    explicit Builder(Store& s) : S(s) { tk_clear(S); S.top = K_MAP; S.started = true; }
    void put(int key, const Tok& t) { int sl = tk_slot(key); S.val[sl] = t; S.seen |= (1u << sl); S.count++; S.declared = S.count; }
    static Tok mk(uint8_t k, uint64_t u) { Tok t; t.kind = k; t.u = u; t.slen = 0; t.tid = 0; t.obj = nullptr; return t; }
    static Tok mks(const std::string& s, bool text) { Tok t = mk(text ? K_TSTR : K_BSTR, 0); t.slen = (uint8_t)s.size(); for (unsigned i = 0; i < VS_STRCAP; i++) t.s[i] = i < s.size() ? (unsigned char)s.m_data[i] : 0; return t; }
    // a signed member: unsigned or negative item depending on the (symbolic) sign; the marker lets the reader model know *concretely* that the
    // token is an integer of either kind (tok_eq ignores it), so that read_integer() has no symbolic error path
    static Tok mki(int64_t v) { Tok t = v < 0 ? mk(K_NEG, (uint64_t)(-(v + 1))) : mk(K_UINT, (uint64_t)v); t.tid = TID_SINT; return t; }
    template<class T> void u(int key, const T& f) { put(key, mk(K_UINT, (uint64_t)f)); }
    template<class O> void uo(int key, const O& f) { if (f.m_init) put(key, mk(K_UINT, (uint64_t)f.m_val)); }
    template<class O> void io(int key, const O& f) { if (f.m_init) put(key, mki((int64_t)f.m_val)); }
    template<class O> void bo(int key, const O& f) { if (f.m_init) put(key, mk(K_BOOL, f.m_val ? 1 : 0)); }
    void s(int key, const std::string& f, bool text) { put(key, mks(f, text)); }
    template<class O> void so(int key, const O& f, bool text) { if (f.m_init) put(key, mks(f.m_val, text)); }
    template<class T> void item(int key, const T& f, uint8_t tid, uint64_t tag) { Tok t = mk(K_ITEM, tag); t.tid = tid; t.obj = &f; put(key, t); }
    template<class O> void itemo(int key, const O& f, uint8_t tid, uint64_t tag) { if (f.m_init) item(key, f.m_val, tid, tag); }
    // arrays (vector sizes are concrete in the harnesses)
    template<class V> void arr_u(int key, const V& v, bool omit_empty) {
        if (omit_empty && v.size() == 0) return;
        int sl = tk_slot(key); put(key, mk(K_ARR, v.size()));
        for (unsigned k = 0; k < TK_NARR; k++) if (k < v.size()) S.arr[sl][k] = mk(K_UINT, (uint64_t)v.m_data[k]);
    }
    template<class V> void arr_s(int key, const V& v, bool text, bool omit_empty) {
        if (omit_empty && v.size() == 0) return;
        int sl = tk_slot(key); put(key, mk(K_ARR, v.size()));
        for (unsigned k = 0; k < TK_NARR; k++) if (k < v.size()) S.arr[sl][k] = mks(v.m_data[k], text);
    }
};

// ---- writer-side acceptor state ------------------------------------------------------------------------------------
extern Store W;                  // what the function under test has emitted
extern uint64_t w_bytes;         // ghost: sum of the sizes returned by the encoder model (C10)
extern bool w_phase_value; extern int w_cur_slot; extern bool w_in_arr; extern int w_arr_slot;
void tk_wreset();
// ---- reader-side generator state ------------------------------------------------------------------------------------
extern Store R;                  // the single item offered to the function under test
extern uint8_t r_order[TK_NSLOT]; extern unsigned r_nmem;     // delivery order of the members (slots)
extern bool r_indef;             // the map / array is offered in indefinite-length form
extern unsigned r_pos;           // members delivered so far
extern bool r_value_pending;     // key delivered, value not yet
extern unsigned r_tokens, r_cut; // truncation: after r_cut tokens the input ends (CdnsDecoderEnd)
extern bool r_in_arr; extern int r_arr_slot; extern unsigned r_arr_pos; extern bool r_arr_indef;
extern bool r_done, r_misuse;
void tk_rreset();
