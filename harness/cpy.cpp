// cpy.cpp -- C19 at block level: the four copy/move operations that CdnsBlockRead adds on top of CdnsBlock (block.h), with
// CdnsBlock::operator=(CdnsBlock&) replaced by a contract ("member-wise copy": nine BlockTable assignments -- copy_tbl_ctor /
// copy_tbl_assign in tbl.cpp -- plus value-typed vectors, a value-keyed map and plain members; the whole 10 KB block copy is outside
// the solver bound: DESIGN.md 9.4).  Decided here: whatever way the second block is obtained, the base part is copied exactly once from
// the source and the read cursors of the copy start at the beginning of the copy's OWN containers, whatever the cursors of the source
// (a partly read block) or of the assignment target were.
#ifndef VS_STRCAP
#define VS_STRCAP 2
#endif
#ifndef VS_VECCAP
#define VS_VECCAP 2
#endif
#ifndef VS_MAPCAP
#define VS_MAPCAP 2
#endif
#define VS_SMALL_DNS_TABLES
#include "prelude.h"
#include "verif_api.cpp"
#include "tok_model.h"
#include "block.cpp"
#include "file_preamble.cpp"
#include "timestamp.cpp"

#ifdef WITNESS
#define WITNESS_END() __verif_assert(false, "WITNESS: end of harness reachable")
#else
#define WITNESS_END() ((void)0)
#endif
static CdnsBlockRead* g_src; static CdnsBlockRead* g_dst;
static unsigned g_base_assigned; static bool g_base_paired = true;
// contract of CdnsBlock::operator=(CdnsBlock&): member-wise copy; the members the cursors refer to are really copied
extern "C" CdnsBlock* stub_block_assign(CdnsBlock* self, CdnsBlock* rhs) {
    if (self != static_cast<CdnsBlock*>(g_dst) || rhs != static_cast<CdnsBlock*>(g_src)) g_base_paired = false;
    g_base_assigned++;
    self->m_address_event_counts = rhs->m_address_event_counts;
    self->m_block_preamble.earliest_time = rhs->m_block_preamble.earliest_time;
    return self;
}

extern "C" void h_copy_blockread(void) {
    CdnsBlockRead* src = new CdnsBlockRead(); g_src = src;
    src->m_block_preamble.earliest_time = Timestamp(nondet_u64(), nondet_u64());
    unsigned na = (unsigned)vs_range(2);
    for (unsigned i = 0; i < 2; i++) if (i < na) { AddressEventCount a; a.ae_type = AddressEventTypeValues::tcp_reset; a.ae_address_index = i; a.ae_code = nondet_u8(); src->m_address_event_counts[a] = nondet_u64(); }
    // the source has been partly read: its cursors are anywhere
    src->m_qr_read = nondet_u64(); src->m_mm_read = nondet_u64();
    src->m_aec_read = src->m_address_event_counts.begin() + vs_range(2);
    unsigned how = (unsigned)vs_range(3);          // 0 copy-construct 1 move-construct 2 copy-assign 3 move-assign
    CdnsBlockRead* dst = static_cast<CdnsBlockRead*>(operator new(sizeof(CdnsBlockRead))); g_dst = dst;
    g_base_assigned = 0; g_base_paired = true;
    if (how == 0) new (dst) CdnsBlockRead(*src);
    else if (how == 1) new (dst) CdnsBlockRead(static_cast<CdnsBlockRead&&>(*src));
    else {
        new (dst) CdnsBlockRead();
        // the destination of an assignment has a history of its own
        if (nondet_bool()) { AddressEventCount a; a.ae_type = AddressEventTypeValues::icmp_dest_unreachable; a.ae_address_index = 7; dst->m_address_event_counts[a] = nondet_u64(); }
        dst->m_qr_read = nondet_u64(); dst->m_mm_read = nondet_u64(); dst->m_aec_read = dst->m_address_event_counts.begin() + vs_range(1);
        if (how == 2) *dst = *src; else *dst = static_cast<CdnsBlockRead&&>(*src);
    }
    __verif_assert(g_base_assigned == 1 && g_base_paired, "the CdnsBlock part is copied exactly once, from the source into the new block (C19)");
    __verif_assert(dst->m_address_event_counts.size() == na && dst->m_block_preamble.earliest_time.m_secs == src->m_block_preamble.earliest_time.m_secs, "the copy holds the content of the source");
    __verif_assert(dst->m_qr_read == 0 && dst->m_mm_read == 0, "a copied CdnsBlockRead delivers its records from the first one, like a freshly built block (C19)");
    __verif_assert(dst->m_aec_read == dst->m_address_event_counts.begin(), "the address-event cursor of the copy points at the copy's own container, not into the source (C19)");
    WITNESS_END();
}
