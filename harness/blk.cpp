// blk.cpp -- schema code (U4 block.cpp, U5 file_preamble.cpp, Timestamp::write/read) at item level (L2):
//   h_w_<X>: X::write emits exactly one well-formed item (C02), returns the bytes it produced (C10) and the item is the
//            RFC 8618 encoding of X (C01 / C09, writer side)
//   h_r_<X>: X::read on the RFC 8618 encoding of a symbolic X, members in any order, definite or indefinite length, with
//            unknown members mixed in (C08), returns exactly X (C01 / C09 reader side); truncated input => CdnsDecoderEnd (C05)
// Nested write()/read() calls are replaced by their contract (one tagged item), see tok_model.h.
#ifndef VS_STRCAP
#define VS_STRCAP 3
#endif
#ifndef VS_VECCAP
#define VS_VECCAP 2
#endif
#ifndef VS_MAPCAP
#define VS_MAPCAP 2
#endif
#define VS_SMALL_DNS_TABLES
#include "prelude.h"
#include "verif_api.cpp"
#include "tok_model.h"
#include "block.cpp"
#include "file_preamble.cpp"
#include "timestamp.cpp"

#ifdef WITNESS
#define WITNESS_END() __verif_assert(false, "WITNESS: end of harness reachable")
#else
#define WITNESS_END() ((void)0)
#endif
#ifndef BLK_FORM
#define BLK_FORM 0
#endif
#ifndef BLK_MAXM
#define BLK_MAXM 4          // members (known + unknown) per map in the symbolic-order reader obligations
#endif

// ---- type ids and tag fields of nested structures -------------------------------------------------------------------
enum { T_ClassType = 1, T_QRSig, T_Question, T_RR, T_MMD, T_RPD, T_QRE, T_BlockPreamble, T_BlockStatistics, T_QR, T_AEC, T_MM,
       T_StorageHints, T_StorageParameters, T_CollectionParameters, T_BlockParameters, T_Timestamp, T_StringItem, T_IndexListItem };
static uint64_t tag_of(const Timestamp& x) { return x.m_secs; }                 static void set_tag(Timestamp& x, uint64_t t) { x.m_secs = t; }
static uint64_t tag_of(const ResponseProcessingData& x) { return x.bailiwick_index.m_val; }   static void set_tag(ResponseProcessingData& x, uint64_t t) { x.bailiwick_index = (index_t)t; }
static uint64_t tag_of(const QueryResponseExtended& x) { return x.question_index.m_val; }     static void set_tag(QueryResponseExtended& x, uint64_t t) { x.question_index = (index_t)t; }
static uint64_t tag_of(const StorageHints& x) { return x.query_response_hints; }              static void set_tag(StorageHints& x, uint64_t t) { x.query_response_hints = (uint32_t)t; }
static uint64_t tag_of(const StorageParameters& x) { return x.ticks_per_second; }             static void set_tag(StorageParameters& x, uint64_t t) { x.ticks_per_second = t; }
static uint64_t tag_of(const CollectionParameters& x) { return x.snaplen.m_val; }             static void set_tag(CollectionParameters& x, uint64_t t) { x.snaplen = t; }
static uint64_t tag_of(const BlockParameters& x) { return x.storage_parameters.ticks_per_second; }  static void set_tag(BlockParameters& x, uint64_t t) { x.storage_parameters.ticks_per_second = t; }

#define STUB(T, TID) \
    extern "C" std::size_t stubw_##T(T* self, CdnsEncoder*) { return tk_emit_item(TID, self, tag_of(*self)); } \
    extern "C" void stubr_##T(T* self, CdnsDecoder*) { uint64_t tag = tk_take_item(TID); set_tag(*self, tag); }
STUB(Timestamp, T_Timestamp) STUB(ResponseProcessingData, T_RPD) STUB(QueryResponseExtended, T_QRE) STUB(StorageHints, T_StorageHints)
STUB(StorageParameters, T_StorageParameters) STUB(CollectionParameters, T_CollectionParameters) STUB(BlockParameters, T_BlockParameters)
// Timestamp::get_time_offset: the arithmetic is C17's SMT obligation; here only the data flow (which stamp, which
// reference, which rate) is checked: the contract returns an arbitrary offset and records its arguments
static const Timestamp* g_off_this; static const Timestamp* g_off_ref; static uint64_t g_off_rate; static int64_t g_off_val; static unsigned g_off_calls;
extern "C" int64_t stub_get_time_offset(Timestamp* self, const Timestamp* ref, uint64_t rate) {
    g_off_this = self; g_off_ref = ref; g_off_rate = rate; g_off_calls++; return g_off_val;
}

// ---- symbolic values ----------------------------------------------------------------------------------------------------
#ifdef BLK_CANON
#define SYM_PRESENT() true            // canonical runs: every optional member present (presence subsets: the other obligations)
#else
#define SYM_PRESENT() nondet_bool()
#endif
template<class T> static void oi(boost::optional<T>& o) { o.m_init = SYM_PRESENT(); o.m_val = (T)nondet_u64(); }
static void sstr(std::string& s) { s.m_len = (size_t)vs_range(VS_STRCAP); s.m_fmt = false; for (size_t i = 0; i < VS_STRCAP + 1; i++) s.m_data[i] = (char)nondet_u8(); }
static void os(boost::optional<std::string>& o) { o.m_init = SYM_PRESENT(); sstr(o.m_val); }
template<class T> union Box { T v; Box() {} ~Box() {} };
union EncBox { CdnsEncoder e; EncBox() {} ~EncBox() {} };
union DecBox { CdnsDecoder d; DecBox() {} ~DecBox() {} };

// ---- RFC 8618 schemas (keys and kinds written out independently of format_specification.h) -----------------------------
static void schema(Builder& b, const ClassType& s) { b.u(0, s.type); b.u(1, s.class_); }
static void schema(Builder& b, const Question& s) { b.u(0, s.name_index); b.u(1, s.classtype_index); }
static void schema(Builder& b, const RR& s) { b.u(0, s.name_index); b.u(1, s.classtype_index); b.uo(2, s.ttl); b.uo(3, s.rdata_index); }
static void schema(Builder& b, const QueryResponseSignature& s) {
    b.uo(0, s.server_address_index); b.uo(1, s.server_port); b.uo(2, s.qr_transport_flags); b.uo(3, s.qr_type); b.uo(4, s.qr_sig_flags);
    b.uo(5, s.query_opcode); b.uo(6, s.qr_dns_flags); b.uo(7, s.query_rcode); b.uo(8, s.query_classtype_index); b.uo(9, s.query_qdcount);
    b.uo(10, s.query_ancount); b.uo(11, s.query_nscount); b.uo(12, s.query_arcount); b.uo(13, s.query_edns_version); b.uo(14, s.query_udp_size);
    b.uo(15, s.query_opt_rdata_index); b.uo(16, s.response_rcode);
}
static void schema(Builder& b, const MalformedMessageData& s) { b.uo(0, s.server_address_index); b.uo(1, s.server_port); b.uo(2, s.mm_transport_flags); b.so(3, s.mm_payload, false); }
static void schema(Builder& b, const ResponseProcessingData& s) { b.uo(0, s.bailiwick_index); b.uo(1, s.processing_flags); }
static void schema(Builder& b, const QueryResponseExtended& s) { b.uo(0, s.question_index); b.uo(1, s.answer_index); b.uo(2, s.authority_index); b.uo(3, s.additional_index); }
static void schema(Builder& b, const BlockPreamble& s) { b.item(0, s.earliest_time, T_Timestamp, tag_of(s.earliest_time)); b.uo(1, s.block_parameters_index); }
static void schema(Builder& b, const BlockStatistics& s) {
    b.uo(0, s.processed_messages); b.uo(1, s.qr_data_items); b.uo(2, s.unmatched_queries); b.uo(3, s.unmatched_responses); b.uo(4, s.discarded_opcode); b.uo(5, s.malformed_items);
}
static void schema(Builder& b, const AddressEventCount& s) { b.u(0, s.ae_type); b.uo(1, s.ae_code); b.u(2, s.ae_address_index); b.uo(3, s.ae_transport_flags); b.u(4, s.ae_count); }
static void schema(Builder& b, const StorageHints& s) { b.u(0, s.query_response_hints); b.u(1, s.query_response_signature_hints); b.u(2, s.rr_hints); b.u(3, s.other_data_hints); }
static void schema(Builder& b, const StorageParameters& s) {
    b.u(0, s.ticks_per_second); b.u(1, s.max_block_items); b.item(2, s.storage_hints, T_StorageHints, tag_of(s.storage_hints));
    b.arr_u(3, s.opcodes, false); b.arr_u(4, s.rr_types, false);
    b.uo(5, s.storage_flags); b.uo(6, s.client_address_prefix_ipv4); b.uo(7, s.client_address_prefix_ipv6); b.uo(8, s.server_address_prefix_ipv4);
    b.uo(9, s.server_address_prefix_ipv6); b.so(10, s.sampling_method, true); b.so(11, s.anonymization_method, true);
}
static void schema(Builder& b, const CollectionParameters& s) {
    b.uo(0, s.query_timeout); b.uo(1, s.skew_timeout); b.uo(2, s.snaplen); b.bo(3, s.promisc);
    b.arr_s(4, s.interfaces, true, true); b.arr_s(5, s.server_address, false, true); b.arr_u(6, s.vlan_ids, true);
    b.so(7, s.filter, true); b.so(8, s.generator_id, true); b.so(9, s.host_id, true);
}
static void schema(Builder& b, const BlockParameters& s) {
    b.item(0, s.storage_parameters, T_StorageParameters, tag_of(s.storage_parameters));
    if (s.collection_parameters.m_init) b.item(1, s.collection_parameters.m_val, T_CollectionParameters, tag_of(s.collection_parameters.m_val));
}
static void schema(Builder& b, const FilePreamble& s) {
    b.u(0, s.m_major_format_version); b.u(1, s.m_minor_format_version); b.uo(2, s.m_private_version);
    size_t n = s.m_block_parameters.size();
    int sl = tk_slot(3); b.put(3, Builder::mk(K_ARR, n));
    for (unsigned k = 0; k < TK_NARR; k++) if (k < n) { Tok t = Builder::mk(K_ITEM, tag_of(s.m_block_parameters.m_data[k])); t.tid = T_BlockParameters; t.obj = &s.m_block_parameters.m_data[k]; b.S.arr[sl][k] = t; }
}
// query/response and malformed-message items: the time offset member is checked by the harness (it is computed, not stored)
static void schema(Builder& b, const QueryResponse& s, bool with_offset, uint64_t offset) {
    if (with_offset && s.time_offset.m_init) b.u(0, offset);
    b.uo(1, s.client_address_index); b.uo(2, s.client_port); b.uo(3, s.transaction_id); b.uo(4, s.qr_signature_index); b.uo(5, s.client_hoplimit);
    b.io(6, s.response_delay); b.uo(7, s.query_name_index); b.uo(8, s.query_size); b.uo(9, s.response_size);
    if (s.response_processing_data.m_init) b.item(10, s.response_processing_data.m_val, T_RPD, tag_of(s.response_processing_data.m_val));
    if (s.query_extended.m_init) b.item(11, s.query_extended.m_val, T_QRE, tag_of(s.query_extended.m_val));
    if (s.response_extended.m_init) b.item(12, s.response_extended.m_val, T_QRE, tag_of(s.response_extended.m_val));
    b.so(-1, s.asn, true); b.so(-2, s.country_code, true); b.io(-3, s.round_trip_time);
}
static void schema(Builder& b, const MalformedMessage& s, bool with_offset, uint64_t offset) {
    if (with_offset && s.time_offset.m_init) b.u(0, offset);
    b.uo(1, s.client_address_index); b.uo(2, s.client_port); b.uo(3, s.message_data_index);
}

// ---- symbolic structures ----------------------------------------------------------------------------------------------------
static void sym(ClassType& s) { s.type = nondet_u16(); s.class_ = nondet_u16(); }
static void sym(Question& s) { s.name_index = nondet_u32(); s.classtype_index = nondet_u32(); }
static void sym(RR& s) { s.name_index = nondet_u32(); s.classtype_index = nondet_u32(); oi(s.ttl); oi(s.rdata_index); }
static void sym(QueryResponseSignature& v) {
    oi(v.server_address_index); oi(v.server_port); oi(v.qr_transport_flags); oi(v.qr_type); oi(v.qr_sig_flags); oi(v.query_opcode); oi(v.qr_dns_flags);
    oi(v.query_rcode); oi(v.query_classtype_index); oi(v.query_qdcount); oi(v.query_ancount); oi(v.query_nscount); oi(v.query_arcount);
    oi(v.query_edns_version); oi(v.query_udp_size); oi(v.query_opt_rdata_index); oi(v.response_rcode);
}
static void sym(MalformedMessageData& v) { oi(v.server_address_index); oi(v.server_port); oi(v.mm_transport_flags); os(v.mm_payload); }
static void sym(ResponseProcessingData& v) { oi(v.bailiwick_index); oi(v.processing_flags); }
static void sym(QueryResponseExtended& v) { oi(v.question_index); oi(v.answer_index); oi(v.authority_index); oi(v.additional_index); }
static void sym(BlockPreamble& v) { v.earliest_time.m_secs = nondet_u64(); v.earliest_time.m_ticks = nondet_u64(); oi(v.block_parameters_index); }
static void sym(BlockStatistics& v) { oi(v.processed_messages); oi(v.qr_data_items); oi(v.unmatched_queries); oi(v.unmatched_responses); oi(v.discarded_opcode); oi(v.malformed_items); }
static void sym(AddressEventCount& v) { v.ae_type = (AddressEventTypeValues)nondet_u8(); oi(v.ae_code); v.ae_address_index = nondet_u32(); oi(v.ae_transport_flags); v.ae_count = nondet_u64(); }
static void sym(StorageHints& v) { v.query_response_hints = nondet_u32(); v.query_response_signature_hints = nondet_u32(); v.rr_hints = nondet_u8(); v.other_data_hints = nondet_u8(); }
// list sizes are concrete per call (DESIGN.md: array closure must be decidable during symbolic execution)
static void sym(StorageParameters& v, unsigned nop, unsigned nrr) {
    v.ticks_per_second = nondet_u64(); v.max_block_items = nondet_u64(); sym(v.storage_hints);
    v.opcodes.m_size = nop; for (unsigned i = 0; i < 2; i++) v.opcodes.m_data[i] = (OpCodes)nondet_u8();
    v.rr_types.m_size = nrr; for (unsigned i = 0; i < 2; i++) v.rr_types.m_data[i] = (RrTypes)nondet_u16();
    oi(v.storage_flags); oi(v.client_address_prefix_ipv4); oi(v.client_address_prefix_ipv6); oi(v.server_address_prefix_ipv4); oi(v.server_address_prefix_ipv6);
    os(v.sampling_method); os(v.anonymization_method);
}
static void sym(CollectionParameters& v, unsigned nif, unsigned nsa, unsigned nvl) {
    oi(v.query_timeout); oi(v.skew_timeout); oi(v.snaplen); v.promisc.m_init = SYM_PRESENT(); v.promisc.m_val = nondet_bool();
    v.interfaces.m_size = nif; v.server_address.m_size = nsa; v.vlan_ids.m_size = nvl;
    for (unsigned i = 0; i < VS_VECCAP; i++) { sstr(v.interfaces.m_data[i]); sstr(v.server_address.m_data[i]); v.vlan_ids.m_data[i] = nondet_u16(); }
    os(v.filter); os(v.generator_id); os(v.host_id);
}
static void sym(QueryResponse& v) {
    v.time_offset.m_init = SYM_PRESENT(); v.time_offset.m_val.m_secs = nondet_u64(); v.time_offset.m_val.m_ticks = nondet_u64();
    oi(v.client_address_index); oi(v.client_port); oi(v.transaction_id); oi(v.qr_signature_index); oi(v.client_hoplimit); oi(v.response_delay);
    oi(v.query_name_index); oi(v.query_size); oi(v.response_size);
    v.response_processing_data.m_init = SYM_PRESENT(); sym(v.response_processing_data.m_val);
    v.query_extended.m_init = SYM_PRESENT(); sym(v.query_extended.m_val);
    v.response_extended.m_init = SYM_PRESENT(); sym(v.response_extended.m_val);
    os(v.asn); os(v.country_code); oi(v.round_trip_time);
}
static void sym(MalformedMessage& v) {
    v.time_offset.m_init = nondet_bool(); v.time_offset.m_val.m_secs = nondet_u64(); v.time_offset.m_val.m_ticks = nondet_u64();
    oi(v.client_address_index); oi(v.client_port); oi(v.message_data_index);
}

// ---- writer obligations --------------------------------------------------------------------------------------------------------
static void w_check(std::size_t ret, const Store& E) {
    __verif_assert(w_wellformed(), "write() emits exactly one well-formed item: declared count == members present, every key has a value (C02)");
    __verif_assert(ret == w_bytes, "write() returns the number of bytes it produced (C10)");
    __verif_assert(store_eq(W, E, true), "the item is the RFC 8618 encoding of the structure: keys, kinds, values, presence (C01/C09)");
}
#define W_SIMPLE(name, T) extern "C" void h_w_##name(void) { Box<T> b; sym(b.v); Store E; { Builder bd(E); schema(bd, b.v); } \
    tk_wreset(); EncBox e; std::size_t ret = b.v.write(e.e); w_check(ret, E); WITNESS_END(); }
W_SIMPLE(classtype, ClassType) W_SIMPLE(question, Question) W_SIMPLE(rr, RR) W_SIMPLE(qrsig, QueryResponseSignature) W_SIMPLE(mmd, MalformedMessageData)
W_SIMPLE(rpd, ResponseProcessingData) W_SIMPLE(qre, QueryResponseExtended) W_SIMPLE(blockpreamble, BlockPreamble) W_SIMPLE(blockstatistics, BlockStatistics)
W_SIMPLE(aec, AddressEventCount) W_SIMPLE(storagehints, StorageHints)

extern "C" void h_w_storageparameters(void) {
    for (unsigned nop = 0; nop <= 2; nop++) for (unsigned nrr = 0; nrr <= 2; nrr += 2) {
        Box<StorageParameters> b; sym(b.v, nop, nrr); Store E; { Builder bd(E); schema(bd, b.v); }
        tk_wreset(); EncBox e; std::size_t ret = b.v.write(e.e); w_check(ret, E);
    }
    WITNESS_END();
}
extern "C" void h_w_collectionparameters(void) {
    for (unsigned n = 0; n <= 2; n++) {
        Box<CollectionParameters> b; sym(b.v, n, (n + 1) % 3, (n + 2) % 3); Store E; { Builder bd(E); schema(bd, b.v); }
        tk_wreset(); EncBox e; std::size_t ret = b.v.write(e.e); w_check(ret, E);
    }
    WITNESS_END();
}
extern "C" void h_w_blockparameters(void) {
    Box<BlockParameters> b; sym(b.v.storage_parameters, 1, 1); b.v.collection_parameters.m_init = nondet_bool(); sym(b.v.collection_parameters.m_val, (unsigned)0, (unsigned)0, (unsigned)0);
    Store E; { Builder bd(E); schema(bd, b.v); }
    tk_wreset(); EncBox e; std::size_t ret = b.v.write(e.e); w_check(ret, E);
    WITNESS_END();
}
extern "C" void h_w_queryresponse(void) {
    Box<QueryResponse> b; sym(b.v); Timestamp earliest(nondet_u64(), nondet_u64()); uint64_t tps = nondet_u64();
    g_off_val = (int64_t)nondet_u64(); g_off_calls = 0;
    Store E; { Builder bd(E); schema(bd, b.v, true, (uint64_t)g_off_val); }
    tk_wreset(); EncBox e; std::size_t ret = b.v.write(e.e, earliest, tps); w_check(ret, E);
    if (b.v.time_offset.m_init) __verif_assert(g_off_calls == 1 && g_off_this == &b.v.time_offset.m_val && g_off_ref == &earliest && g_off_rate == tps,
                                               "time offset = record time relative to the block's earliest time at the block's own tick rate (C01)");
    WITNESS_END();
}
extern "C" void h_w_malformedmessage(void) {
    Box<MalformedMessage> b; sym(b.v); Timestamp earliest(nondet_u64(), nondet_u64()); uint64_t tps = nondet_u64();
    g_off_val = (int64_t)nondet_u64(); g_off_calls = 0;
    Store E; { Builder bd(E); schema(bd, b.v, true, (uint64_t)g_off_val); }
    tk_wreset(); EncBox e; std::size_t ret = b.v.write(e.e, earliest, tps); w_check(ret, E);
    if (b.v.time_offset.m_init) __verif_assert(g_off_calls == 1 && g_off_this == &b.v.time_offset.m_val && g_off_ref == &earliest && g_off_rate == tps,
                                               "time offset = record time relative to the block's earliest time at the block's own tick rate (C01)");
    WITNESS_END();
}
extern "C" void h_w_filepreamble(void) {
    for (unsigned n = 1; n <= 2; n++) {
        Box<FilePreamble> b; new (&b.v) FilePreamble();
        b.v.m_major_format_version = nondet_u8(); b.v.m_minor_format_version = nondet_u8(); oi(b.v.m_private_version);
        b.v.m_block_parameters.m_size = n;
        for (unsigned i = 0; i < 2; i++) b.v.m_block_parameters.m_data[i].storage_parameters.ticks_per_second = nondet_u64();
        Store E; { Builder bd(E); schema(bd, b.v); }
        tk_wreset(); EncBox e; std::size_t ret = b.v.write(e.e); w_check(ret, E);
    }
    WITNESS_END();
}
// top-level array / scalar items
extern "C" void h_w_timestamp(void) {
    Timestamp t(nondet_u64(), nondet_u64());
    tk_wreset(); EncBox e; std::size_t ret = t.write(e.e);
    __verif_assert(w_wellformed() && W.top == K_ARR && W.declared == 2, "Timestamp is one array of two items (C02)");
    __verif_assert(W.arr[0][0].kind == K_UINT && W.arr[0][0].u == t.m_secs && W.arr[0][1].kind == K_UINT && W.arr[0][1].u == t.m_ticks, "Timestamp = [seconds, ticks] (C01)");
    __verif_assert(ret == w_bytes, "write() returns the number of bytes it produced (C10)");
    WITNESS_END();
}
extern "C" void h_w_stringitem(void) {
    StringItem s; sstr(s.data);
    tk_wreset(); EncBox e; std::size_t ret = s.write(e.e);
    __verif_assert(w_wellformed() && W.top == K_BSTR && tok_eq(W.top_tok, Builder::mks(s.data, false), true), "table string = one byte string with the same bytes (C01/C02)");
    __verif_assert(ret == w_bytes, "write() returns the number of bytes it produced (C10)");
    WITNESS_END();
}
extern "C" void h_w_indexlist(void) {
    for (unsigned n = 0; n <= 2; n++) {
        IndexListItem l; l.list.m_size = n; for (unsigned i = 0; i < 2; i++) l.list.m_data[i] = nondet_u32();
        tk_wreset(); EncBox e; std::size_t ret = l.write(e.e);
        __verif_assert(w_wellformed() && W.top == K_ARR && W.declared == n, "index list = one array with as many items as the list (also when empty) (C02)");
        for (unsigned i = 0; i < 2; i++) if (i < n) __verif_assert(W.arr[0][i].kind == K_UINT && W.arr[0][i].u == l.list.m_data[i], "index list items in order (C01)");
        __verif_assert(ret == w_bytes, "write() returns the number of bytes it produced (C10)");
    }
    WITNESS_END();
}

// ---- reader obligations -----------------------------------------------------------------------------------------------------------
// R holds the reference encoding of the structure; choose unknown members, a delivery order, the length form and a cut point
static unsigned g_total_tokens;
static void r_prepare(bool allow_unknown) {
    unsigned nknown = 0;
    for (int i = 0; i < TK_UNK0; i++) if (R.seen & (1u << i)) nknown++;
#ifdef BLK_CANON
    allow_unknown = false;          // canonical run: every member present in the value, ascending key order, no unknown members
#endif
    unsigned nunk = allow_unknown ? (unsigned)vs_range(2) : 0;
    for (unsigned k = 0; k < 2; k++) if (k < nunk) {
        int64_t key = (int64_t)nondet_u64();
        __verif_assume(key > 16 || key < -3);                       // not a key RFC 8618 / this implementation defines for the map
        __verif_assume(k == 0 || key != R.ukey[0]);
        R.ukey[k] = key;
        Tok t = Builder::mk(nondet_bool() ? K_UINT : K_OPAQUE, nondet_u64());   // an arbitrary (possibly tagged / nested / float) value: opaque
        R.val[TK_UNK0 + k] = t; R.seen |= (1u << (TK_UNK0 + k));
    }
    r_nmem = nknown + nunk;
#ifdef BLK_CANON
    { unsigned n = 0; for (unsigned sl = 0; sl < TK_NSLOT; sl++) if ((R.seen >> sl) & 1u) r_order[n++] = (uint8_t)sl; }
    for (unsigned i = 0; i < 0; i++) if (i < r_nmem) {
#else
    __verif_assume(r_nmem <= BLK_MAXM);
    // delivery order: any permutation of the present members
    for (unsigned i = 0; i < BLK_MAXM; i++) if (i < r_nmem) {
#endif
        unsigned sl = (unsigned)vs_range(TK_NSLOT - 1);
        __verif_assume((R.seen >> sl) & 1u);
        for (unsigned j = 0; j < i; j++) __verif_assume(r_order[j] != sl);
        r_order[i] = (uint8_t)sl;
    }
#if defined(BLK_CANON) && BLK_CANON == 2
    // directed run: the length forms are concrete per obligation (BLK_FORM bit 0: map indefinite, bit 1: lists indefinite), so that the
    // position in the item stays a constant during symbolic execution and each loop iteration takes exactly one switch case
    r_indef = (BLK_FORM & 1) != 0; r_arr_indef = (BLK_FORM & 2) != 0;
#else
    r_indef = nondet_bool(); r_arr_indef = nondet_bool();
#endif
    // number of tokens of the whole item: start + per member key + value (+ array elements + break) [+ break]
    unsigned n = 1;
    for (int i = 0; i < TK_NSLOT; i++) if (R.seen & (1u << i)) { n += 2; if (R.val[i].kind == K_ARR) n += (unsigned)R.val[i].u + (r_arr_indef ? 1 : 0); }
    if (r_indef) n += 1;
    g_total_tokens = n;
}
#if defined(BLK_CANON) && BLK_CANON == 2
#define R_CUT_CHOICE false          // directed run: the complete item (truncation: the other reader obligations)
#else
#define R_CUT_CHOICE nondet_bool()
#endif
enum RExc { RX_NONE = 0, RX_END, RX_DEC, RX_STD, RX_OTHER };
#define R_CALL(stmt) RExc x = RX_NONE; try { stmt; } catch (CdnsDecoderEnd&) { x = RX_END; } catch (CdnsDecoderException&) { x = RX_DEC; } catch (std::exception&) { x = RX_STD; } catch (...) { x = RX_OTHER; }
static void r_check_common(RExc x, bool cut) {
    __verif_assert(!r_misuse, "schema code uses only the public decoder operations");
    __verif_assert(x != RX_OTHER, "failure only through std::exception-derived errors (C03)");
    if (cut) __verif_assert(x == RX_END, "truncated item: CdnsDecoderEnd propagates to the caller, nothing is fabricated (C05)");
    else {
        __verif_assert(x == RX_NONE, "well-formed item with members in any order / length form / unknown members is accepted (C08)");
        __verif_assert(r_done && r_tokens == g_total_tokens, "exactly the one item is consumed");
    }
}
#define R_SIMPLE(name, T) extern "C" void h_r_##name(void) { Box<T> src; sym(src.v); tk_rreset(); { Builder bd(R); schema(bd, src.v); } Store E; { Builder be(E); schema(be, src.v); } \
    r_prepare(true); bool cut = R_CUT_CHOICE; if (cut) { r_cut = (unsigned)vs_range(40); __verif_assume(r_cut < g_total_tokens); } \
    Box<T> dst; sym(dst.v); DecBox d; R_CALL(dst.v.read(d.d)) r_check_common(x, cut); \
    if (!cut && x == RX_NONE) { Store G; { Builder bd(G); schema(bd, dst.v); } __verif_assert(store_eq(G, E, false), "read() returns exactly the members that were present, with their values; absent stay absent (C01/C09/C08)"); } \
    WITNESS_END(); }
R_SIMPLE(classtype, ClassType) R_SIMPLE(question, Question) R_SIMPLE(rr, RR) R_SIMPLE(qrsig, QueryResponseSignature) R_SIMPLE(mmd, MalformedMessageData)
R_SIMPLE(rpd, ResponseProcessingData) R_SIMPLE(qre, QueryResponseExtended) R_SIMPLE(blockpreamble, BlockPreamble) R_SIMPLE(blockstatistics, BlockStatistics)
R_SIMPLE(aec, AddressEventCount) R_SIMPLE(storagehints, StorageHints)

extern "C" void h_r_queryresponse(void) {
    Box<QueryResponse> src; sym(src.v); uint64_t off = nondet_u64();
    tk_rreset(); { Builder bd(R); schema(bd, src.v, true, off); } Store E; { Builder be(E); schema(be, src.v, true, off); }
    r_prepare(true); bool cut = R_CUT_CHOICE; if (cut) { r_cut = (unsigned)vs_range(40); __verif_assume(r_cut < g_total_tokens); }
    Box<QueryResponse> dst; sym(dst.v); DecBox d; R_CALL(dst.v.read(d.d)) r_check_common(x, cut);
    if (!cut && x == RX_NONE) {
        // the raw offset is parked in time_offset->m_secs until the block knows its earliest time and tick rate
        uint64_t got = dst.v.time_offset.m_init ? dst.v.time_offset.m_val.m_secs : 0;
        Store G; { Builder bd(G); schema(bd, dst.v, true, got); }
        __verif_assert(store_eq(G, E, false), "read() returns exactly the members that were present, with their values; absent stay absent (C01/C08)");
    }
    WITNESS_END();
}
extern "C" void h_r_malformedmessage(void) {
    Box<MalformedMessage> src; sym(src.v); uint64_t off = nondet_u64();
    tk_rreset(); { Builder bd(R); schema(bd, src.v, true, off); } Store E; { Builder be(E); schema(be, src.v, true, off); }
    r_prepare(true); bool cut = R_CUT_CHOICE; if (cut) { r_cut = (unsigned)vs_range(40); __verif_assume(r_cut < g_total_tokens); }
    Box<MalformedMessage> dst; sym(dst.v); DecBox d; R_CALL(dst.v.read(d.d)) r_check_common(x, cut);
    if (!cut && x == RX_NONE) {
        uint64_t got = dst.v.time_offset.m_init ? dst.v.time_offset.m_val.m_secs : 0;
        Store G; { Builder bd(G); schema(bd, dst.v, true, got); }
        __verif_assert(store_eq(G, E, false), "read() returns exactly the members that were present, with their values; absent stay absent (C01/C08)");
    }
    WITNESS_END();
}
static void r_params_common(unsigned which) {
    // which: 0 StorageParameters (lists 1,2)  1 CollectionParameters  2 BlockParameters
    tk_rreset();
    Box<StorageParameters> sp; Box<CollectionParameters> cp; Box<BlockParameters> bp;
    Store E;
    if (which == 0) { sym(sp.v, 1, 2); { Builder bd(R); schema(bd, sp.v); } Builder be(E); schema(be, sp.v); }
    else if (which == 1) { sym(cp.v, 2, 0, 1); { Builder bd(R); schema(bd, cp.v); } Builder be(E); schema(be, cp.v); }
    else { sym(bp.v.storage_parameters, 0, 0); bp.v.collection_parameters.m_init = SYM_PRESENT(); sym(bp.v.collection_parameters.m_val, (unsigned)0, (unsigned)0, (unsigned)0); { Builder bd(R); schema(bd, bp.v); } Builder be(E); schema(be, bp.v); }
    r_prepare(true); bool cut = R_CUT_CHOICE; if (cut) { r_cut = (unsigned)vs_range(40); __verif_assume(r_cut < g_total_tokens); }
    // the object read into lives on the heap (typed allocation): CBMC 6.11 returned values the native run does not for a local written through the
    // pointers the vector model hands out (counterexample did not replay), see DESIGN.md 9.4
    DecBox d; Store G; RExc xx;
    if (which == 0) { Box<StorageParameters>& dst = *new Box<StorageParameters>(); new (&dst.v) StorageParameters(); R_CALL(dst.v.read(d.d)) xx = x; if (!cut && x == RX_NONE) { Builder bd(G); schema(bd, dst.v); } }
    else if (which == 1) { Box<CollectionParameters>& dst = *new Box<CollectionParameters>(); new (&dst.v) CollectionParameters(); R_CALL(dst.v.read(d.d)) xx = x; if (!cut && x == RX_NONE) { Builder bd(G); schema(bd, dst.v); } }
    else { Box<BlockParameters>& dst = *new Box<BlockParameters>(); new (&dst.v) BlockParameters(); R_CALL(dst.v.read(d.d)) xx = x; if (!cut && x == RX_NONE) { Builder bd(G); schema(bd, dst.v); } }
    r_check_common(xx, cut);
    if (!cut && xx == RX_NONE) __verif_assert(store_eq(G, E, false), "read() returns exactly the members that were present, with their values and list order; absent stay absent (C09/C08)");
    WITNESS_END();
}
extern "C" void h_r_storageparameters(void) { r_params_common(0); }
extern "C" void h_r_collectionparameters(void) { r_params_common(1); }
extern "C" void h_r_blockparameters(void) { r_params_common(2); }

#ifndef BLK_FP_NMAX
#define BLK_FP_NMAX 1
#endif
extern "C" void h_r_filepreamble(void) {
    for (unsigned n = 1; n <= BLK_FP_NMAX; n++) {
        Box<FilePreamble> src; new (&src.v) FilePreamble();
        src.v.m_major_format_version = nondet_u8(); src.v.m_minor_format_version = nondet_u8(); oi(src.v.m_private_version);
        src.v.m_block_parameters.m_size = n;
        for (unsigned i = 0; i < 2; i++) src.v.m_block_parameters.m_data[i].storage_parameters.ticks_per_second = nondet_u64();
        tk_rreset(); { Builder bd(R); schema(bd, src.v); } Store E; { Builder be(E); schema(be, src.v); }
        r_prepare(BLK_MAXM > 4);
        Box<FilePreamble> dst; new (&dst.v) FilePreamble(); DecBox d; R_CALL(dst.v.read(d.d)) r_check_common(x, false);
        if (x == RX_NONE) { Store G; { Builder bd(G); schema(bd, dst.v); }
            __verif_assert(store_eq(G, E, false), "file preamble read back member for member: versions, private version present iff written, parameter sets at the same indices (C09)"); }
    }
    WITNESS_END();
}
extern "C" void h_r_timestamp(void) {
    tk_rreset(); tk_clear(R); R.top = K_ARR; R.started = true; R.declared = 2;
    R.arr[0][0] = Builder::mk(K_UINT, nondet_u64()); R.arr[0][1] = Builder::mk(K_UINT, nondet_u64());
    r_indef = nondet_bool(); r_nmem = 0; g_total_tokens = 3 + (r_indef ? 1 : 0);
    bool cut = R_CUT_CHOICE; if (cut) { r_cut = (unsigned)vs_range(8); __verif_assume(r_cut < g_total_tokens); }
    Timestamp t(nondet_u64(), nondet_u64()); DecBox d; R_CALL(t.read(d.d)) r_check_common(x, cut);
    if (!cut && x == RX_NONE) __verif_assert(t.m_secs == R.arr[0][0].u && t.m_ticks == R.arr[0][1].u, "Timestamp read back exactly (C01)");
    WITNESS_END();
}
extern "C" void h_r_indexlist(void) {
    for (unsigned n = 0; n <= 2; n++) {
        tk_rreset(); tk_clear(R); R.top = K_ARR; R.started = true; R.declared = n;
        for (unsigned i = 0; i < 2; i++) R.arr[0][i] = Builder::mk(K_UINT, nondet_u32());
        r_indef = nondet_bool(); r_nmem = 0; g_total_tokens = 1 + n + (r_indef ? 1 : 0);
        IndexListItem l; DecBox d; R_CALL(l.read(d.d)) r_check_common(x, false);
        if (x == RX_NONE) { __verif_assert(l.list.size() == n, "index list length read back (C01)"); for (unsigned i = 0; i < 2; i++) if (i < n) __verif_assert(l.list.m_data[i] == R.arr[0][i].u, "index list items in order (C01)"); }
    }
    WITNESS_END();
}
