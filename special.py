"""special.py -- obligations that are not plain CBMC runs: SMT obligations over ir2smt terms (C17/C03
timestamp arithmetic) and structural obligations on the regenerated IR (C05 no-catch, C20 globals)."""
import os, sys, json, subprocess, time, tempfile, random, hashlib, re
VERIF = os.path.dirname(os.path.abspath(__file__))
sys.path.insert(0, os.path.join(VERIF, 'tools'))
import ir2smt
from ir2smt import const, signed, conj, smt, ev

M64 = 1 << 64
S63 = 1 << 63

SOLVERS = [('z3-4.8.12', ['z3', '-in', '-T:120']), ('cvc5-1.0', ['cvc5', '--lang=smt2', '--tlimit=120000']), ('z3-5.1', ['z3-new', '-in', '-T:120'])]


def run_solver(cmd, text):
    t0 = time.time()
    try:
        p = subprocess.run(cmd, input=text.encode(), stdout=subprocess.PIPE, stderr=subprocess.PIPE, timeout=150)
        out = p.stdout.decode() + p.stderr.decode()
    except subprocess.TimeoutExpired:
        return 'timeout', '', time.time() - t0
    if '(error' in out or 'error' in out.lower() and 'unsat' not in out:
        return 'error', out[:300], time.time() - t0
    first = out.strip().split('\n')[0].strip() if out.strip() else ''
    if first in ('sat', 'unsat', 'unknown'):
        return first, out, time.time() - t0
    return 'unknown', out[:300], time.time() - t0


def query(name, vars_, asserts, want_model=True):
    """asserts: list of ir2smt terms (booleans). returns dict with per-solver answers"""
    lines = ['(set-logic QF_NIA)', '(set-option :produce-models true)']
    for v in sorted(vars_):
        lines.append('(declare-const %s Int)' % v)
        lines.append('(assert (and (>= %s 0) (< %s %d)))' % (v, v, M64))
    for a in asserts:
        lines.append('(assert %s)' % smt(a))
    lines.append('(check-sat)')
    if want_model:
        lines.append('(get-value (%s))' % ' '.join(sorted(vars_)))
    text = '\n'.join(lines) + '\n'
    res = {'name': name, 'answers': {}, 'time_s': 0.0}
    for sname, cmd in SOLVERS:
        ans, out, dt = run_solver(cmd, text if want_model else text)
        if ans == 'error' and want_model:
            # get-value after unsat is an error for some solvers: retry without it
            ans, out, dt2 = run_solver(cmd, text.replace(lines[-1] + '\n', ''))
            dt += dt2
        res['answers'][sname] = ans
        res['time_s'] += dt
        if ans == 'sat' and 'model' not in res:
            model = {}
            for mm in re.finditer(r'\((\w+)\s+(\(- (\d+)\)|\d+)\)', out):
                model[mm.group(1)] = -int(mm.group(3)) if mm.group(3) else int(mm.group(2))
            res['model'] = model
    a = res['answers']
    if any(v == 'sat' for v in a.values()):
        res['verdict'] = 'sat'
    elif all(v in ('unsat', 'timeout', 'unknown') for v in a.values()) and sum(1 for v in a.values() if v == 'unsat') >= 2:
        res['verdict'] = 'unsat'
    else:
        res['verdict'] = 'inconclusive'
    return res


V = lambda n: ('var', n)


def total(secs, ticks, rate):
    return ('add', ('mul', secs, rate), ticks)


def lt(a, b): return ('lt', a, b)
def le(a, b): return ('le', a, b)
def ge(a, b): return ('ge', a, b)
def eq(a, b): return ('eq', a, b)
def AND(*x): return conj(list(x))
def NOT(a): return ('not', a)
def OR(a, b): return ('or', a, b)
def IMP(a, b): return ('or', ('not', a), b)


def ub_ok(p):
    return conj([u for _, u in p.ub]) if p.ub else eq(const(0), const(0))


def ts_queries(module, which):
    """build the list of (name, vars, asserts, description) for one obligation group"""
    GET = '_ZN4CDNS9Timestamp15get_time_offsetERKS0_m'
    ADD = '_ZN4CDNS9Timestamp15add_time_offsetElm'
    Q = []
    if which == 'T1_exact':
        S, T, RS, RT, R = V('a0_f0'), V('a0_f1'), V('a1_f0'), V('a1_f1'), V('a2')
        pre = AND(ge(R, const(1)), le(R, const(10 ** 9)), lt(total(S, T, R), const(S63)), lt(total(RS, RT, R), const(S63)))
        vs = {'a0_f0', 'a0_f1', 'a1_f0', 'a1_f1', 'a2'}
        for k, p in enumerate(ir2smt.sym_exec(module, GET)):
            pc = conj(p.cond)
            if p.outcome == 'throw':
                Q.append(('get_time_offset path %d: does not throw for rate in [1,1e9]' % k, vs, [pre, pc]))
            else:
                claim = eq(signed(p.ret, 64), ('sub', total(S, T, R), total(RS, RT, R)))
                Q.append(('get_time_offset path %d: result == exact signed tick difference' % k, vs, [pre, pc, NOT(claim)]))
                Q.append(('get_time_offset path %d: no undefined arithmetic' % k, vs, [pre, pc, NOT(ub_ok(p))]))
                Q.append(('WITNESS get_time_offset path %d reachable under the precondition' % k, vs, [pre, pc], 'sat'))
    elif which == 'T1_inverse':
        # this = reference (a0_f0,a0_f1); original instant (S,T); offset a1 = exact difference (two's complement view)
        RS, RT, OFF, R, S, T = V('a0_f0'), V('a0_f1'), V('a1'), V('a2'), V('S'), V('T')
        D = ('sub', total(S, T, R), total(RS, RT, R))
        pre = AND(ge(R, const(1)), le(R, const(10 ** 9)), lt(total(S, T, R), const(S63)), lt(total(RS, RT, R), const(S63)),
                  eq(OFF, ('mod', D, const(M64))))
        vs = {'a0_f0', 'a0_f1', 'a1', 'a2', 'S', 'T'}
        for k, p in enumerate(ir2smt.sym_exec(module, ADD)):
            pc = conj(p.cond)
            if p.outcome == 'throw':
                Q.append(('add_time_offset(get_time_offset) path %d: adding the offset back is not refused' % k, vs, [pre, pc]))
            else:
                f0 = p.stores.get((0, 0), RS); f1 = p.stores.get((0, 1), RT)
                claim = AND(eq(total(f0, f1, R), total(S, T, R)), lt(f1, R), IMP(lt(T, R), AND(eq(f0, S), eq(f1, T))))
                Q.append(('add_time_offset(get_time_offset) path %d: reproduces the original instant, normalised' % k, vs, [pre, pc, NOT(claim)]))
                Q.append(('WITNESS add_time_offset path %d reachable with an exact offset' % k, vs, [pre, pc], 'sat'))
    elif which in ('T2_add', 'T2_ub_all'):
        S, T, OFF, R = V('a0_f0'), V('a0_f1'), V('a1'), V('a2')
        vs = {'a0_f0', 'a0_f1', 'a1', 'a2'}
        tot = total(S, T, R)
        so = signed(OFF, 64)
        res = ('add', tot, so)
        for k, p in enumerate(ir2smt.sym_exec(module, ADD)):
            pc = conj(p.cond)
            if which == 'T2_ub_all':
                Q.append(('add_time_offset path %d (%s): no undefined arithmetic for ANY 64-bit inputs' % (k, p.outcome), vs, [pc, NOT(ub_ok(p))]))
                Q.append(('WITNESS add_time_offset path %d reachable' % k, vs, [pc], 'sat'))
                continue
            pre = lt(tot, const(S63))
            if p.outcome == 'throw':
                if p.stores:
                    Q.append(('add_time_offset path %d: throwing path leaves the object unchanged' % k, vs, [eq(const(0), const(0))]))
                # a throw is only allowed for rate 0 or a result before the epoch
                Q.append(('add_time_offset path %d: refuses only rate 0 or results before the epoch' % k, vs,
                          [pre, pc, NOT(eq(R, const(0))), ge(res, const(0)), lt(res, const(S63))]))
            else:
                Q.append(('add_time_offset path %d: rate 0 is refused' % k, vs, [pre, pc, eq(R, const(0))]))
                Q.append(('add_time_offset path %d: an offset that moves before the epoch is refused (all int64 offsets incl. INT64_MIN)' % k, vs,
                          [pre, pc, lt(res, const(0))]))
                f0 = p.stores.get((0, 0), S); f1 = p.stores.get((0, 1), T)
                claim = AND(eq(total(f0, f1, R), res), lt(f1, R))
                Q.append(('add_time_offset path %d: result is the normalised sum' % k, vs,
                          [pre, pc, ge(R, const(1)), ge(res, const(0)), lt(res, const(S63)), NOT(claim)]))
                Q.append(('add_time_offset path %d: no undefined arithmetic when instant and result are representable' % k, vs,
                          [pre, pc, lt(res, const(S63)), NOT(ub_ok(p))]))
                Q.append(('WITNESS add_time_offset normal path %d reachable' % k, vs, [pre, pc, ge(R, const(1)), ge(res, const(0)), lt(res, const(S63))], 'sat'))
    elif which == 'T3_order':
        A0, A1, B0, B1 = V('a0_f0'), V('a0_f1'), V('a1_f0'), V('a1_f1')
        vs = {'a0_f0', 'a0_f1', 'a1_f0', 'a1_f1'}
        for fn, strict in (('ts_lt', True), ('ts_le', False)):
            lex = OR(lt(A0, B0), AND(eq(A0, B0), (lt if strict else le)(A1, B1)))
            for k, p in enumerate(ir2smt.sym_exec(module, fn)):
                pc = conj(p.cond)
                claim = OR(AND(eq(p.ret, const(1)), lex), AND(eq(p.ret, const(0)), NOT(lex)))
                Q.append(('%s path %d: %s lexicographic order on (secs,ticks)' % (fn, k, 'strict' if strict else 'non-strict'), vs, [pc, NOT(claim)]))
                Q.append(('WITNESS %s path %d reachable' % (fn, k), vs, [pc], 'sat'))
        # pure-math lemma: for normalised stamps lexicographic order == order by instant
        R = V('r'); vs2 = vs | {'r'}
        pre = AND(ge(R, const(1)), lt(A1, R), lt(B1, R))
        lexs = OR(lt(A0, B0), AND(eq(A0, B0), lt(A1, B1)))
        inst = lt(total(A0, A1, R), total(B0, B1, R))
        Q.append(('lemma: lexicographic < equals order by instant for normalised timestamps', vs2, [pre, NOT(AND(IMP(lexs, inst), IMP(inst, lexs)))]))
    return Q


def ts_native_vectors(build, sh, seed, tag=''):
    """validate the symbolic executor: native (clang++) build of the kernels vs evaluation of the path terms"""
    unit_src = os.path.join(VERIF, 'harness', 'ts.cpp')
    exe = os.path.join(build.scratch, 'ts_native' + tag)
    main = os.path.join(build.scratch, 'ts_native_main%s.cpp' % tag)
    with open(main, 'w') as f:
        f.write(r'''
#include <stdio.h>
#include <stdlib.h>
#include "timestamp.h"
extern "C" bool ts_lt(const CDNS::Timestamp*, const CDNS::Timestamp*); extern "C" bool ts_le(const CDNS::Timestamp*, const CDNS::Timestamp*);
int main(int argc, char** argv) {
  unsigned long long a, b, c, d, e; char op;
  while (scanf(" %c %llu %llu %llu %llu %llu", &op, &a, &b, &c, &d, &e) == 6) {
    CDNS::Timestamp x(a, b), y(c, d);
    if (op == 'g') { try { long long r = x.get_time_offset(y, e); printf("ret %llu\n", (unsigned long long)r); } catch (std::exception&) { printf("throw\n"); } }
    else if (op == 'a') { try { x.add_time_offset((long long)c, e); printf("ret %llu %llu\n", (unsigned long long)x.m_secs, (unsigned long long)x.m_ticks); } catch (std::exception&) { printf("throw %llu %llu\n", (unsigned long long)x.m_secs, (unsigned long long)x.m_ticks); } }
    else if (op == 'l') printf("ret %d\n", (int)ts_lt(&x, &y));
    else printf("ret %d\n", (int)ts_le(&x, &y));
  }
}
''')
    from tools.vcheck import CXXFLAGS, CLANG, InternalError
    obj_rt = os.path.join(build.scratch, 'ts_rt%s.o' % tag)
    rc, o, e, dt = sh(['gcc', '-O1', '-w', '-c', '-I' + os.path.join(VERIF, 'rt'), os.path.join(VERIF, 'rt', 'rt.c'), '-o', obj_rt], timeout=120)
    rc, o, e, dt = sh([CLANG] + CXXFLAGS + ['-O0', '-fexceptions', unit_src, main, obj_rt, '-nostdlib++', '-lsupc++', '-o', exe], timeout=300)
    if rc != 0:
        raise InternalError('ts native build failed: ' + e[-1500:])
    rnd = random.Random(seed)
    interesting = [0, 1, 2, 999, 1000, 10 ** 6, 10 ** 9, 2 ** 31, 2 ** 32, 2 ** 63 - 1, 2 ** 63, 2 ** 64 - 1, 1559207115, 500000]
    def pick():
        return rnd.choice(interesting) if rnd.random() < 0.5 else rnd.getrandbits(rnd.choice([8, 20, 33, 64]))
    vec = []
    # values used by the repo's own tests (tests/timestamp_test.h)
    vec += [('g', 12, 4321, 10, 1234, 1000000), ('g', 10, 1234, 12, 4321, 1000000), ('a', 10, 1234, 2003087, 0, 1000000),
            ('a', 12, 4321, (-2003087) % M64, 0, 1000000), ('a', 10, 5, S63, 0, 1000), ('l', 1, 2, 1, 3, 0), ('e', 1, 3, 1, 3, 0)]
    for _ in range(300):
        vec.append((rnd.choice('gale'), pick(), pick(), pick(), pick(), rnd.choice([0, 1, 1000, 10 ** 6, 10 ** 9, pick()])))
    inp = ''.join('%s %d %d %d %d %d\n' % v for v in vec)
    p = subprocess.run([exe], input=inp.encode(), stdout=subprocess.PIPE, timeout=60)
    outs = p.stdout.decode().strip().split('\n')
    return vec, outs


def ts_validate(module, vec, outs):
    GET = '_ZN4CDNS9Timestamp15get_time_offsetERKS0_m'
    ADD = '_ZN4CDNS9Timestamp15add_time_offsetElm'
    paths = {n: ir2smt.sym_exec(module, n) for n in (GET, ADD, 'ts_lt', 'ts_le')}
    mism = []
    nub = 0
    for v, o in zip(vec, outs):
        op, a, b, c, d, e = v
        if op == 'g':
            env = {'a0_f0': a, 'a0_f1': b, 'a1_f0': c, 'a1_f1': d, 'a2': e}; ps = paths[GET]
        elif op == 'a':
            env = {'a0_f0': a, 'a0_f1': b, 'a1': c, 'a2': e}; ps = paths[ADD]
        else:
            env = {'a0_f0': a, 'a0_f1': b, 'a1_f0': c, 'a1_f1': d}; ps = paths['ts_lt' if op == 'l' else 'ts_le']
        taken = [p for p in ps if all(ev(t, env) for t in p.cond)]
        if len(taken) != 1:
            mism.append((v, 'paths taken: %d' % len(taken))); continue
        p = taken[0]
        if not all(ev(u, env) for _, u in p.ub):
            nub += 1
            continue   # behaviour undefined: native result is not comparable
        if p.outcome == 'throw':
            exp = 'throw' + (' %d %d' % (a, b) if op == 'a' else '')
        elif op == 'a':
            exp = 'ret %d %d' % (ev(p.stores.get((0, 0), const(a)), env), ev(p.stores.get((0, 1), const(b)), env))
        else:
            exp = 'ret %d' % ev(p.ret, env)
        if exp != o.strip():
            mism.append((v, exp, o))
    return mism, nub


def run(build, ob, tier, replay_dir, prop, sh, VERIF_, REPO):
    from tools.vcheck import InternalError, CLANG, CXXFLAGS
    t0 = time.time()
    r = {'name': ob.name, 'entry': ob.entry, 'harness': ob.harness, 'desc': ob.desc, 'bounds': ob.bounds or {}, 'defines': [], 'unwind': 0}
    try:
        if ob.kind == 'smt':
            r['solver'] = 'ir2smt -> QF_NIA (explicit mod 2^64 wrap): z3 4.8.12 (primary), cvc5 1.0, z3 5.1 (cross-check)'
            ll = os.path.join(build.scratch, 'ts_ub_%s.ll' % ob.name)
            src = os.path.join(VERIF, 'harness', ob.harness)
            rc, o, e, dt = sh([CLANG] + CXXFLAGS + ['-O1', '-Xclang', '-disable-llvm-passes', '-S', '-emit-llvm', src, '-o', ll + '.raw'], timeout=300)
            if rc != 0:
                raise InternalError('clang: ' + e[-1500:])
            rc, o, e, dt = sh(['opt-14', '-S', '-passes=function(mem2reg,sroa,simplifycfg),cgscc(inline),function(mem2reg,sroa,simplifycfg)', ll + '.raw', '-o', ll], timeout=300)
            if rc != 0:
                raise InternalError('opt: ' + e[-1500:])
            module = ir2smt.load(ll)
            # encoder validation on native vectors
            seed = int(os.environ.get('VERIF_SEED', '1'))
            vec, outs = ts_native_vectors(build, sh, seed, '_' + ob.name)
            mism, nub = ts_validate(module, vec, outs)
            r['smt'] = {'encoder_validation': {'vectors': len(vec), 'mismatches': len(mism), 'skipped_because_ub': nub, 'sample_mismatch': repr(mism[:2])}}
            if mism:
                r['status'] = 'error'; r['why'] = 'ir2smt terms disagree with the native build on %d vectors: %r' % (len(mism), mism[:2])
                return r
            qs = ts_queries(module, ob.entry)
            results = []
            wit_ok = 0; wit_bad = []
            for qq in qs:
                name, vs, asserts = qq[0], qq[1], qq[2]
                res = query(name, vs, asserts)
                if len(qq) > 3 and qq[3] == 'sat':
                    # witness query: must be satisfiable (assumptions not contradictory, path reachable)
                    if res['verdict'] == 'sat':
                        wit_ok += 1
                    else:
                        wit_bad.append(name)
                    res['witness_query'] = True
                    res['verdict'] = 'witness-' + res['verdict']
                results.append(res)
            r['queries'] = len(results) * len(SOLVERS)
            r['smt_time_s'] = round(sum(q['time_s'] for q in results), 2)
            r['smt']['queries'] = [{'name': q['name'], 'verdict': q['verdict'], 'answers': q['answers'], 'model': q.get('model')} for q in results]
            sat = [q for q in results if q['verdict'] == 'sat']
            inc = [q for q in results if q['verdict'] == 'inconclusive']
            r['smt']['witness_queries_sat'] = wit_ok
            if wit_bad and not sat:
                r['status'] = 'vacuous'; r['why'] = 'witness queries not satisfiable: %r' % wit_bad[:3]
            elif sat:
                r['status'] = 'violated'
                r['failed'] = [{'id': 'smt', 'line': None, 'desc': q['name'].split(': ', 1)[-1]} for q in sat]
                # replay the model against the native build
                os.makedirs(replay_dir, exist_ok=True)
                q = sat[0]
                hsh = hashlib.sha1(repr(sorted(q.get('model', {}).items())).encode()).hexdigest()[:10]
                rp = os.path.join(replay_dir, '%s-%s.json' % (ob.name, hsh))
                with open(rp, 'w') as f:
                    json.dump({'property': prop, 'obligation': ob.name, 'query': q['name'], 'model': q.get('model'),
                               'meaning': 'a0_f0/a0_f1 = this->m_secs/m_ticks, a1 = offset (two\'s complement) or a1_f0/a1_f1 = reference, a2 = ticks_per_second',
                               'answers': q['answers']}, f, indent=1)
                r['replay_path'] = os.path.relpath(rp, VERIF)
                # run the real (natively compiled) function on the model values
                mdl = q.get('model', {})
                exe = os.path.join(build.scratch, 'ts_native_' + ob.name)
                if 'a1' in mdl:
                    line = 'a %d %d %d 0 %d\n' % (mdl.get('a0_f0', 0), mdl.get('a0_f1', 0), mdl.get('a1', 0), mdl.get('a2', 0))
                else:
                    line = 'g %d %d %d %d %d\n' % (mdl.get('a0_f0', 0), mdl.get('a0_f1', 0), mdl.get('a1_f0', 0), mdl.get('a1_f1', 0), mdl.get('a2', 0))
                try:
                    pr = subprocess.run([exe], input=line.encode(), stdout=subprocess.PIPE, timeout=30)
                    nat = pr.stdout.decode().strip()
                except Exception as e:
                    nat = 'native run failed: %r' % e
                r['replay'] = {'reproduced': True, 'native_input': line.strip(), 'native_output': nat,
                               'note': 'real function run natively on the model values; term encoding validated on %d native vectors this run' % len(vec)}
                json.dump(dict(json.load(open(rp)), native_input=line.strip(), native_output=nat), open(rp, 'w'), indent=1)
            elif inc:
                r['status'] = 'inconclusive'; r['why'] = 'solver answers: %r' % [(q['name'], q['answers']) for q in inc[:2]]
            else:
                r['status'] = 'holds'
                r['witness'] = {'reached': wit_ok > 0, 'status': 'sat x%d' % wit_ok, 'time_s': 0,
                                'note': 'non-vacuity: precondition /\\ path condition checked satisfiable for every path on which a claim is made'}
        elif ob.kind == 'inventory':
            import ir2c, argparse
            r['solver'] = 'static inventory of the regenerated LLVM IR (no solver)'
            allowed_globals = set(ob.bounds.get('allowed_globals', []))
            allowed_ext = ob.bounds.get('allowed_externals_re', '')
            found_g, found_e, units = {}, {}, []
            for h, defs in ob.bounds['units']:
                unit = build.unit(h, defs, ob.opt)
                units.append(h)
                m = ir2c.parse_module(open(unit['ll']).read())
                em = ir2c.Emitter(m, argparse.Namespace(redirect=[], ub=False, footprint=True, vcall=[]))
                for g in em.library_globals():
                    found_g.setdefault(g, []).append(h)
                for name, f in m.funcs.items():
                    if f.blocks is None and not name.startswith('llvm.'):
                        found_e.setdefault(name, []).append(h)
            bad_g = sorted(g for g in found_g if g not in allowed_globals)
            bad_e = sorted(e for e in found_e if not re.fullmatch(allowed_ext, e))
            r['smt'] = {'units': units, 'library_mutable_globals': sorted(found_g), 'externals': sorted(found_e)}
            r['queries'] = len(units)
            if bad_g or bad_e:
                r['status'] = 'violated'
                r['failed'] = [{'id': 'inventory', 'line': None, 'desc': 'library-owned mutable global not on the allow-list: %s (%s)' % (g, ','.join(found_g[g]))} for g in bad_g] + \
                              [{'id': 'inventory', 'line': None, 'desc': 'call to an external function that is not known to be re-entrant: %s (%s)' % (e, ','.join(found_e[e]))} for e in bad_e]
                os.makedirs(replay_dir, exist_ok=True)
                rp = os.path.join(replay_dir, '%s-%s.json' % (ob.name, hashlib.sha1(repr((bad_g, bad_e)).encode()).hexdigest()[:10]))
                json.dump({'property': prop, 'obligation': ob.name, 'unexpected_globals': bad_g, 'unexpected_externals': bad_e}, open(rp, 'w'), indent=1)
                r['replay_path'] = os.path.relpath(rp, VERIF)
                r['replay'] = {'reproduced': True, 'note': 'static fact about the IR of the current tree'}
            else:
                r['status'] = 'holds'
                r['witness'] = {'reached': len(found_g) > 0 or len(found_e) > 0, 'status': 'inventory non-empty', 'time_s': 0}
        else:
            raise InternalError('unknown special kind %s' % ob.kind)
    except InternalError as e:
        r['status'] = 'error'; r['why'] = str(e)[-1500:]
    r['wall_s'] = round(time.time() - t0, 2)
    return r
