// verif_api.h -- harness/monitor interface shared by the model headers and the harness TUs.
#pragma once
#include <stdint.h>
#include <stddef.h>
extern "C" {
uint8_t nondet_u8(void);
uint16_t nondet_u16(void);
uint32_t nondet_u32(void);
uint64_t nondet_u64(void);
bool nondet_bool(void);
void __verif_assume(bool c);
void __verif_assert(bool c, const char* msg);
void __verif_observe(uint64_t v);      // trace output for translation validation (no-op under CBMC)
bool __verif_native(void);             // false under CBMC, true in native replay / differential builds
}
// value in [0,hi]: an assumption for the solver, a reduction for native random/differential runs
static inline uint64_t vs_range(uint64_t hi) {
  uint64_t v = nondet_u64();
  if (__verif_native()) return hi == UINT64_MAX ? v : v % (hi + 1);
  __verif_assume(v <= hi);
  return v;
}
// model capacity exceeded: a *bound* of the model, reported as an assertion so that nothing is
// silently cut off (the harness has to keep its inputs inside the capacities it states)
#define VS_BOUND(c, what) __verif_assert((c), "model-bound: " what)
#ifndef VS_STRCAP
#define VS_STRCAP 8
#endif
#ifndef VS_VECCAP
#define VS_VECCAP 3
#endif
#ifndef VS_MAPCAP
#define VS_MAPCAP 3
#endif
// monitors (ghost state), defined in verif_api.cpp part of every harness TU
extern uint64_t __vs_reserve_max;      // largest reserve() request seen on any model container
extern uint64_t __vs_oob_reads;        // bounds violations observed by model containers
