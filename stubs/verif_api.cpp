// ghost state of the model headers; #included once by every harness TU
#include "verif_api.h"
uint64_t __vs_reserve_max = 0;
uint64_t __vs_oob_reads = 0;
#include <iostream>
namespace std { ostream cout; ostream cerr; istream cin; }
