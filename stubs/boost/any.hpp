// model boost::any for the two types c-dns stores in it (std::string, int): type tag + value
#pragma once
#include <string>
#include <typeinfo>
namespace boost {
class bad_any_cast : public std::bad_cast {};
class any {
public:
  int m_tag;            // 0 empty, 1 int, 2 std::string, 3 other
  int m_int; std::string m_str;
  any() : m_tag(0), m_int(0) {}
  any(const int& v) : m_tag(1), m_int(v) {}
  any(const std::string& v) : m_tag(2), m_int(0), m_str(v) {}
  any(const char* v) : m_tag(3), m_int(0) {}      // real boost::any stores a const char* here: neither int nor string
  template<size_t N> any(const char (&)[N]) : m_tag(3), m_int(0) {}
  any(const any& o) : m_tag(o.m_tag), m_int(o.m_int), m_str(o.m_str) {}
  const std::type_info& type() const noexcept { return m_tag == 1 ? typeid(int) : (m_tag == 2 ? typeid(std::string) : (m_tag == 0 ? typeid(void) : typeid(const char*))); }
  bool empty() const { return m_tag == 0; }
};
template<class T> T any_cast(const any& a);
template<> inline int any_cast<int>(const any& a) { if (a.m_tag != 1) throw bad_any_cast(); return a.m_int; }
template<> inline std::string any_cast<std::string>(const any& a) { if (a.m_tag != 2) throw bad_any_cast(); return a.m_str; }
}
