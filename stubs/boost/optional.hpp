// model boost::optional<T>: flag + typed storage
#pragma once
#include <new>
#include <utility>
#include <exception>
#include <boost/none.hpp>
#include "verif_api.h"
namespace boost {
class bad_optional_access : public std::exception { public: const char* what() const noexcept override { return "bad_optional_access"; } };
template<class T> class optional {
public:
  bool m_init;
  union { T m_val; };
  optional() noexcept : m_init(false) {}
  optional(none_t) noexcept : m_init(false) {}
  optional(const T& v) : m_init(true) { new (&m_val) T(v); }
  optional(T&& v) : m_init(true) { new (&m_val) T(static_cast<T&&>(v)); }
  optional(const optional& o) : m_init(o.m_init) { if (o.m_init) new (&m_val) T(o.m_val); }
  optional(optional&& o) : m_init(o.m_init) { if (o.m_init) new (&m_val) T(static_cast<T&&>(o.m_val)); }
  template<class U> explicit optional(const optional<U>& o) : m_init(o.m_init) { if (o.m_init) new (&m_val) T(o.m_val); }
  ~optional() { if (m_init) m_val.~T(); }
  optional& operator=(none_t) noexcept { reset(); return *this; }
  optional& operator=(const optional& o) { if (this != &o) { if (o.m_init) { if (m_init) m_val = o.m_val; else { new (&m_val) T(o.m_val); m_init = true; } } else reset(); } return *this; }
  optional& operator=(optional&& o) { if (this != &o) { if (o.m_init) { if (m_init) m_val = static_cast<T&&>(o.m_val); else { new (&m_val) T(static_cast<T&&>(o.m_val)); m_init = true; } } else reset(); } return *this; }
  optional& operator=(const T& v) { if (m_init) m_val = v; else { new (&m_val) T(v); m_init = true; } return *this; }
  optional& operator=(T&& v) { if (m_init) m_val = static_cast<T&&>(v); else { new (&m_val) T(static_cast<T&&>(v)); m_init = true; } return *this; }
  template<class U> optional& operator=(const optional<U>& o) { if (o.m_init) *this = T(o.m_val); else reset(); return *this; }
  void reset() noexcept { if (m_init) { m_val.~T(); m_init = false; } }
  template<class... A> void emplace(A&&... a) { reset(); new (&m_val) T(static_cast<A&&>(a)...); m_init = true; }
  explicit operator bool() const noexcept { return m_init; }
  bool operator!() const noexcept { return !m_init; }
  bool is_initialized() const noexcept { return m_init; }
  bool has_value() const noexcept { return m_init; }
  T& value() { if (!m_init) throw bad_optional_access(); return m_val; }
  const T& value() const { if (!m_init) throw bad_optional_access(); return m_val; }
  T& get() { __verif_assert(m_init, "optional get() on empty"); return m_val; }
  const T& get() const { __verif_assert(m_init, "optional get() on empty"); return m_val; }
  T& operator*() { __verif_assert(m_init, "optional operator* on empty"); return m_val; }
  const T& operator*() const { __verif_assert(m_init, "optional operator* on empty"); return m_val; }
  T* operator->() { __verif_assert(m_init, "optional operator-> on empty"); return &m_val; }
  const T* operator->() const { __verif_assert(m_init, "optional operator-> on empty"); return &m_val; }
  T value_or(const T& d) const { return m_init ? m_val : d; }
  T get_value_or(const T& d) const { return m_init ? m_val : d; }
};
template<class T> bool operator==(const optional<T>& a, const optional<T>& b) { if (a.m_init != b.m_init) return false; if (!a.m_init) return true; return a.m_val == b.m_val; }
template<class T> bool operator!=(const optional<T>& a, const optional<T>& b) { return !(a == b); }
template<class T> bool operator==(const optional<T>& a, none_t) { return !a.m_init; }
template<class T> bool operator!=(const optional<T>& a, none_t) { return a.m_init; }
template<class T> bool operator==(const optional<T>& a, const T& b) { return a.m_init && a.m_val == b; }
template<class T> bool operator!=(const optional<T>& a, const T& b) { return !(a == b); }
template<class T> bool operator<(const optional<T>& a, const optional<T>& b) { if (!b.m_init) return false; if (!a.m_init) return true; return a.m_val < b.m_val; }
template<class T> bool operator<(const optional<T>& a, const T& b) { return !a.m_init || a.m_val < b; }
template<class T> bool operator<(const T& a, const optional<T>& b) { return b.m_init && a < b.m_val; }
template<class T> bool operator<=(const optional<T>& a, const T& b) { return !a.m_init || a.m_val <= b; }
template<class T> bool operator>(const optional<T>& a, const T& b) { return a.m_init && b < a.m_val; }
template<class T> optional<T> make_optional(const T& v) { return optional<T>(v); }
}
