#pragma once
namespace boost { struct none_t { struct init_tag {}; explicit constexpr none_t(init_tag) {} }; constexpr none_t none{none_t::init_tag()}; }
