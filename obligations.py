"""obligations.py -- the obligations (harness entry + bounds) that decide each property.
See DESIGN.md section 4 for the reasoning behind each one."""
from tools.vcheck import Obl

PROPS = {}


def run_special(build, ob, tier, replay_dir, prop, sh, VERIF, REPO):
    import special
    return special.run(build, ob, tier, replay_dir, prop, sh, VERIF, REPO)


# ------------------------------------------------------------------------------------------ U1 encoder
ENC_FUNCS = ['CdnsEncoder::write_int', 'CdnsEncoder::write_array_start', 'CdnsEncoder::write_indef_array_start',
             'CdnsEncoder::write_map_start', 'CdnsEncoder::write_indef_map_start', 'CdnsEncoder::write_bytestring',
             'CdnsEncoder::write_textstring', 'CdnsEncoder::write_break', 'CdnsEncoder::write(bool/u8/u16/u32/u64/i8/i16/i32/i64)',
             'CdnsEncoder::flush_buffer', 'CdnsEncoder::write_string', 'CdnsEncoder::update_buffer', 'CdnsEncoder::rotate_output<T>']


def enc_obls(prop):
    o = []
    heads = ['array_start', 'indef_array', 'map_start', 'indef_map', 'break_', 'bool_', 'u8', 'u16', 'u32', 'u64', 'i8', 'i16', 'i32', 'i64']
    for bs, tiers in ((9, ('quick', 'thorough')), (16, ('thorough',)), (33, ('thorough',))):
        d = ['CDNS_VERIF_ENCODER_BUFFER_SIZE=%d' % bs]
        for h in heads:
            o.append(Obl('enc_%s_bs%d' % (h, bs), 'enc.cpp', 'h_enc_' + h, unwind=bs + 2, defines=d, tiers=tiers,
                         desc='one call of the operation from any I_enc state (symbolic fill level 0..BS, symbolic buffer contents, symbolic 64-bit argument): '
                              'output stream == old stream ++ RFC 8949 preferred encoding, return value == its length, at most one flush',
                         bounds={'BUFFER_SIZE': bs, 'argument': 'all values of the type', 'fill': '0..%d' % bs}, functions=ENC_FUNCS))
        for h in ('bytestring', 'textstring'):
            for mult, tt in ((2, ('quick',)), (3, ('thorough',))):
                t2 = tuple(t for t in tt if t in tiers)
                if not t2:
                    continue
                ms = mult * bs + 2
                o.append(Obl('enc_%s_bs%d_len%d' % (h, bs, ms), 'enc.cpp', 'h_enc_' + h, unwind=ms + 2, defines=d + ['ENC_MAXSTR=%d' % ms], tiers=t2, timeout=1500, mem_gb=24,     # the witness twin of the bytestring obligation peaks at 15.8 GB
                             unwindset={r'^__v_mem(cpy|move|set)\.': bs + 1, r'CdnsEncoder16write_(byte|text)string': mult + 2},
                             desc='string of symbolic length 0..%d with symbolic bytes from any I_enc state: head + payload appended in order across flushes' % ms,
                             bounds={'BUFFER_SIZE': bs, 'string length': '0..%d' % ms}, functions=ENC_FUNCS))
        for h in ('bytestring_std', 'textstring_std', 'nullstring', 'rotate'):
            o.append(Obl('enc_%s_bs%d' % (h, bs), 'enc.cpp', 'h_enc_' + h, unwind=max(bs, 8) + 3, defines=d, tiers=tiers,
                         unwindset={r'^__v_mem(cpy|move|set)\.': max(bs, 8) + 1, r'CdnsEncoder16write_(byte|text)string': 3},
                         desc={'nullstring': 'nullptr string: nothing written, returns 0', 'rotate': 'rotate_output<int|string>: all buffered bytes reach the old sink before the writer rotates'}.get(h, 'std::string overload forwards data()/size() unchanged'),
                         bounds={'BUFFER_SIZE': bs, 'std::string length': '0..8 (model capacity)'}, functions=ENC_FUNCS))
    return o


PROPS['C06'] = {
    'obligations': enc_obls('C06'),
    'explanation': 'Inductive step over the encoder: each of the 18 public write operations and rotate_output is executed symbolically once from an '
                   'arbitrary state satisfying I_enc (m_buffer <= m_p, fill + m_avail == BUFFER_SIZE; fill level, buffer bytes, argument all symbolic) '
                   'and compared with a reference RFC 8949 encoder through a lazy oracle (one symbolic position in the old data, one in the new). '
                   'Because the abstract output stream (sink ++ buffer) is extended by exactly the reference bytes in every step, call sequences of any '
                   'length produce the concatenation. Verdicts are for the hooked BUFFER_SIZE values; 2048 is outside the solver bound '
                   '(the code uses BUFFER_SIZE only as array bound and in flush_buffer).',
    'assumptions': ['encoder window hooked to BUFFER_SIZE in {9,16,33} (CDNS_VERIF_ENCODER_BUFFER_SIZE); the real 2048 is covered by parametricity, not by the solver',
                    'the sink (BaseCborOutputWriter) is a ghost accumulator: write() appends, never throws (failures: C16)',
                    'write_bytestring/textstring head thresholds: strings >= 64 KiB (3-byte heads and wider) are outside the string-length bound; the same threshold code is exercised with 64-bit sizes through write_array_start/write_map_start'],
}


# ------------------------------------------------------------------------------------------ U2 decoder
DEC_FUNCS = ['CdnsDecoder::peek_type', 'CdnsDecoder::read_unsigned', 'CdnsDecoder::read_negative', 'CdnsDecoder::read_integer',
             'CdnsDecoder::read_bool', 'CdnsDecoder::read_bytestring', 'CdnsDecoder::read_textstring', 'CdnsDecoder::read_array_start',
             'CdnsDecoder::read_map_start', 'CdnsDecoder::read_break', 'CdnsDecoder::skip_item', 'CdnsDecoder::read_cbor_type',
             'CdnsDecoder::read_int', 'CdnsDecoder::read_string', 'CdnsDecoder::read_to_buffer', 'CdnsDecoder::CdnsDecoder']
SKIP_REDIRECT = ('_ZN4CDNS11CdnsDecoder9skip_itemEj=skip_item__contract@self',)


def dec_obls(groups):
    o = []
    prims = ['unsigned_', 'negative', 'integer', 'array_start', 'map_start', 'break_', 'bool_', 'peek']
    # (window, max remaining input bytes, tiers)
    prim_cfg = [(2, 6, ('quick',)), (1, 12, ('thorough',)), (2, 12, ('thorough',)), (5, 12, ('thorough',)), (16, 12, ('thorough',))]
    str_cfg = [(1, 5, ('quick',)), (2, 6, ('thorough',)), (3, 7, ('thorough',))]
    skip_cfg = [(1, 5, ('quick',)), (2, 7, ('thorough',)), (5, 8, ('thorough',))]
    if 'prim' in groups:
        for bs, maxin, tiers in prim_cfg:
            d = ['CDNS_VERIF_DECODER_BUFFER_SIZE=%d' % bs, 'DEC_MAXIN=%d' % maxin]
            us = {r'read_to_buffer': bs + 1, r'CdnsDecoder\d+(read_|skip_)': 9, r'prim_op|ref_head': 9, r'__v_mem': 17}
            for h in prims:
                o.append(Obl('dec_%s_w%d_n%d' % (h, bs, maxin), 'dec.cpp', 'h_dec_' + h, unwind=max(maxin, bs) + 2, defines=d, tiers=tiers, unwindset=us,
                             redirect=SKIP_REDIRECT, timeout=900,
                             desc='one call from any I_dec state (window offset/fill symbolic, stale bytes unconstrained, stream good/eof/unreadable) on an arbitrary '
                                  'remaining input of 0..%d symbolic bytes vs a reference RFC 8949 parser: End iff truncated, value+exact consumption iff well-formed' % maxin,
                             bounds={'window (BUFFER_SIZE)': bs, 'remaining input bytes': '0..%d' % maxin, 'head widths': 'all (ai 0..31)'}, functions=DEC_FUNCS))
    if 'string' in groups:
        for bs, maxin, tiers in str_cfg:
            d = ['CDNS_VERIF_DECODER_BUFFER_SIZE=%d' % bs, 'DEC_MAXIN=%d' % maxin, 'VS_STRCAP=%d' % (maxin + 1)]     # payload <= maxin bytes; an overflow of the model capacity is an assertion
            us = {r'read_to_buffer': bs + 1, r'ref_head': 9, r'__v_mem': 17, r'string_op|read_string|St6string': 11}    # model string loops run to the capacity (8) with guards
            for h in ('bytestring', 'textstring'):
                o.append(Obl('dec_%s_w%d_n%d' % (h, bs, maxin), 'dec.cpp', 'h_dec_' + h, unwind=maxin + 2, defines=d, tiers=tiers, unwindset=us, timeout=2400,
                             redirect=SKIP_REDIRECT, mem_gb=20,
                             desc='definite and chunked strings on arbitrary remaining input of 0..%d bytes: concatenated payload returned, exact consumption, End iff truncated' % maxin,
                             bounds={'window': bs, 'remaining input bytes': '0..%d' % maxin, 'chunks': 'any number that fits'}, functions=DEC_FUNCS))
    if 'skip' in groups:
        for bs, maxin, tiers in skip_cfg:
            d = ['CDNS_VERIF_DECODER_BUFFER_SIZE=%d' % bs, 'DEC_MAXIN=%d' % maxin]
            for h in ('skip_array', 'skip_map', 'skip_indef_array', 'skip_indef_map', 'skip_tag', 'skip_leaf', 'skip_any', 'skip_depth'):
                us = {r'read_to_buffer': bs + 1, r'ref_head': 9, r'__v_mem': 17, r'skip_item__contract': 4}
                if h not in ('skip_leaf', 'skip_any', 'skip_depth'):
                    us[r'read_string'] = 1      # string paths are infeasible under the harness assumptions (checked by the unwinding assertions)
                o.append(Obl('dec_%s_w%d_n%d' % (h, bs, maxin), 'dec.cpp', 'h_dec_' + h, unwind=maxin + 2, defines=d, tiers=tiers, unwindset=us, timeout=2400,
                             redirect=SKIP_REDIRECT, mem_gb=20,
                             desc='skip_item body with the recursive call replaced by its contract (consume exactly one opaque child of 1..3 bytes): consumes exactly the item',
                             bounds={'window': bs, 'children': '0..3 (maps 0..1 pairs)', 'child length': '1..3 bytes', 'remaining input bytes': '0..%d' % maxin},
                             functions=DEC_FUNCS))
    return o


DEC_ASSUME = ['decoder window hooked to small BUFFER_SIZE values (CDNS_VERIF_DECODER_BUFFER_SIZE); 65535 is outside the solver bound (CBMC flattens the array: 31 GB, no verdict)',
              'std::istream model: read() extracts min(n, remaining) if good(), sets eofbit|failbit iff short, extracts nothing and sets failbit if not good()',
              'skip_item recursion: verified body-wise against the contract "consumes exactly one well-formed item"; unbounded nesting follows by structural induction (stack depth: separate obligation)',
              'message formatting (std::to_string, operator+) has empty bodies']

PROPS['C05'] = {
    'obligations': [o for o in dec_obls(('prim', 'string', 'skip')) if not any(k in o.name for k in ('skip_array', 'skip_map', 'skip_indef', 'skip_tag'))],
    'explanation': 'End-of-input detection is decided on the decoder primitives: from every state of I_dec whose abstract remaining input is shorter than the '
                   'operation needs (empty input, exhausted-but-no-eofbit stream, unreadable stream, every window offset) the primitive must throw CdnsDecoderEnd; '
                   'stale window bytes are unconstrained so any dependence on them is a counterexample. CdnsReader::read_block only composes these primitives '
                   '(structural obligation: no catch clause on the read path).',
    'assumptions': DEC_ASSUME,
}
PROPS['C07'] = {
    'obligations': dec_obls(('prim', 'string', 'skip')),
    'explanation': 'Every read operation is run once on arbitrary remaining input against a reference RFC 8949 parser: all head widths (preferred or not), '
                   'all window offsets; strings definite and chunked; skip_item per item kind with the recursive call replaced by its contract.',
    'assumptions': DEC_ASSUME,
}


# ------------------------------------------------------------------------------------------ U3 timestamp (SMT route)
TS_FUNCS = ['Timestamp::get_time_offset', 'Timestamp::add_time_offset', 'Timestamp::operator<', 'Timestamp::operator<=']
TS_B = {'secs, ticks, offset': 'all 64-bit values', 'ticks_per_second': '[1,1e9] (T1), all 64-bit values (T2)', 'instants': '< 2^63 (representable range)'}
PROPS['C17'] = {
    'translation_validation': False,
    'obligations': [
        Obl('ts_T1_exact', 'ts.cpp', 'T1_exact', kind='smt', desc='get_time_offset == exact signed tick difference for all representable instants, rate in [1,1e9]; never throws; no UB', bounds=TS_B, functions=TS_FUNCS),
        Obl('ts_T1_inverse', 'ts.cpp', 'T1_inverse', kind='smt', desc='reference.add_time_offset(exact offset) reproduces the original instant in normalised form', bounds=TS_B, functions=TS_FUNCS),
        Obl('ts_T2_add', 'ts.cpp', 'T2_add', kind='smt', desc='add_time_offset for ALL int64 offsets (incl. INT64_MIN) and all rates: refuses rate 0 and results before the epoch leaving the object unchanged, otherwise normalised sum; no UB', bounds=TS_B, functions=TS_FUNCS),
        Obl('ts_T3_order', 'ts.cpp', 'T3_order', kind='smt', desc='operator< / operator<= are the strict / non-strict lexicographic order; lemma: lexicographic == by instant for normalised stamps', bounds=TS_B, functions=TS_FUNCS),
    ],
    'explanation': 'The arithmetic kernels of timestamp.cpp are loop-free: tools/ir2smt.py executes their IR path by path into integer terms with explicit mod 2^64 wrap '
                   '(signed views, nsw/nuw and division by zero as UB predicates) and the negated claim is discharged per path by z3 4.8.12, cvc5 1.0 and z3 5.1 '
                   '(unsat from the primary and at least one more, no sat). Verdicts hold for all 64-bit inputs inside the stated preconditions (no bound on values). '
                   'The term encoding is validated on every run against a native build of the same functions on the repo\'s test values and seeded random vectors. '
                   'T4 (earliest-time bookkeeping in CdnsBlock) is a CBMC obligation (block harness).',
    'assumptions': ['QF_NIA solvers z3/cvc5 (agreement of at least two required)', 'IR produced with clang -O1 -disable-llvm-passes + mem2reg/sroa/simplifycfg/inline only (no UB-exploiting passes), so nsw flags are those of the source'],
}


# ------------------------------------------------------------------------------------------ U9 tables / hash
TBL_FUNCS = ['CDNS::hash_value(T const*, size_t, seed)', 'hash_value(QueryResponseSignature/RR/MalformedMessageData/StringItem/IndexListItem/AddressEventCount)',
             'CDNS::hash<T>', 'KeyRef<T>::operator==', 'hash_value(KeyRef<T>)', 'operator== of the 8 key types', 'BlockTable::find/add/add_value/clear/operator[]/record_last_key',
             'CdnsBlock::add_ip_address/add_classtype/add_question_list/get_*/clear', 'BlockTable copy ctor/assignment', 'CdnsBlock copy/move ctor/assignment']
TBL_US = {r'4findERK|ixERK|find_h': 5, r'hash_value': 4, r'__v_mem': 8}
TBL_ASSUME = ['std::unordered_map model: slots with the hash code cached at insertion (as libstdc++ does); find = cached hash equal && KeyEqual',
              'std::deque model: fixed storage, stable element addresses (capacity 4)',
              'SSE4.2 crc32 intrinsics: deterministic mixing function injective in the data operand (quick); exact CRC-32C with -DVERIF_EXACT_CRC (thorough)',
              'model std::string: inline storage, bytes beyond size() unconstrained (stands for "object bytes that are not part of the value")']


def tbl_obl(name, entry, desc, tiers=('quick', 'thorough'), unwind=8, timeout=900, extra=()):
    return Obl(name, 'tbl.cpp', 'noctor:' + entry, unwind=unwind, unwindset=TBL_US, tiers=tiers, timeout=timeout, desc=desc, extra=extra, mem_gb=(30 if timeout > 2000 else 12),
               bounds={'table entries': '<= 4', 'additions per history': '<= 3', 'strings': '<= 6 bytes', 'index lists': '<= 4 entries', 'integers': 'full width'}, functions=TBL_FUNCS)


PROPS['C11'] = {
    'obligations': [tbl_obl('he_' + t, 'h_he_' + t, 'two symbolic values (absent optionals and string tails hold arbitrary bytes): a == b implies hash(a) == hash(b); KeyRef agrees')
                    for t in ('classtype', 'question', 'rr', 'qrsig', 'mmd', 'stringitem', 'indexlist', 'aec')] +
                   [tbl_obl('he_exact_' + t, 'h_he_' + t, 'same with the exact bitwise CRC-32C model of the SSE4.2 intrinsics', tiers=('thorough',), timeout=2400, extra=('-DVERIF_EXACT_CRC',))
                    for t in ('classtype', 'rr', 'mmd', 'stringitem')] +
                   [tbl_obl('eq_members', 'h_eq_members', 'operator== of the key types implies member-wise equality including presence of optionals')] +
                   [tbl_obl('tbl_' + t, 'h_tbl_' + t, 'history of <= 3 add() of symbolic values, then find/operator[]/clear/add: dedup, index stability, distinctness, clear', timeout=900)
                    for t in ('classtype', 'rr', 'question')] +
                   [tbl_obl('tbl_mmd', 'h_tbl_mmd', 'same for MalformedMessageData (string payload)', tiers=('thorough',), timeout=3600),
                    tbl_obl('tbl_block_strings', 'h_tbl_block_strings', 'CdnsBlock::add_ip_address / add_question_list (reinterpret_cast keys): dedup, getters bounds-checked, clear', tiers=('thorough',), timeout=3600)],
    'explanation': 'Hash/equality agreement is decided for all values of each key type (two symbolic values; storage that is not part of the value is unconstrained). '
                   'Table behaviour is decided on whole histories of <= 3 additions from the constructor plus a query, with symbolic (possibly equal) values.',
    'assumptions': TBL_ASSUME,
}
PROPS['C19'] = {
    'obligations': [tbl_obl('copy_tbl_ctor', 'h_copy_tbl_ctor', 'BlockTable copy-constructed from a heap table that is then cleared/destroyed: lookups/adds on the copy never touch freed memory and agree with the values', timeout=1500),
                    tbl_obl('copy_tbl_assign', 'h_copy_tbl_assign', 'same for copy assignment', timeout=1500),
                    tbl_obl('copy_tbl_rr', 'h_copy_tbl_rr', 'same for RR keys (custom hash)', tiers=('thorough',), timeout=1500)] +
                   [tbl_obl('copy_block_' + k, 'h_copy_block_' + k, 'whole CdnsBlock %s from a heap block holding two class/types, an address and a preamble time; the source is then mutated, cleared and destroyed: '
                            'the copy keeps tables, values, preamble and de-duplicates against its own entries (may end without a verdict: reported inconclusive)' % d, tiers=('thorough',), timeout=3000)
                    for k, d in (('ctor', 'copy-constructed'), ('assign', 'copy-assigned'), ('move', 'move-constructed'), ('moveassign', 'move-assigned'))],
    'explanation': 'The source object lives on the heap and is destroyed after the copy; CBMC\'s deallocated-object check fires iff anything in the copy still refers to it. '
                   'Decided at the level of BlockTable (where the reference-keyed index lives); CdnsBlock/CdnsBlockRead copy operations are member-wise assignments of nine such tables, '
                   'value-typed vectors, a value-keyed map and plain members (read in block.h) -- the whole-block copy is outside the solver bound (a 10 KB object: 745k symex steps, no verdict in 40 min).',
    'assumptions': TBL_ASSUME,
}


# ------------------------------------------------------------------------------------------ U7 writers
WR_FUNCS = ['Writer<std::string>::Writer/open/write/close/rotate_output/~Writer', 'Writer<int>::Writer/open/write/close/rotate_output',
            'GzipCborOutputWriter::write/open/close/write_gzip/rotate_output', 'CborOutputException']
WR_ASSUME = ['std::ofstream model: user-space buffer in front of a file model; each write moves an arbitrary part of the pending bytes, flush/close move all; with faults enabled any open/write/flush/close may fail (bytes dropped, failbit/badbit set)',
             '::rename / ::write / fstat / ::close: stubs with their documented contract (short counts, -1, EBADF for negative descriptors)',
             'zlib deflateInit2_/deflate/deflateEnd: nondeterministic progress per the zlib manual (consumes 0..avail_in, produces 0..avail_out, progress when both non-zero, STREAM_END only on FINISH with everything delivered); compression itself is trusted',
             'virtual calls on BaseCborOutputWriter* in the compressor obligations may only reach the ghost inner writer (a different target trips an assertion)',
             'file names <= 3 bytes + suffix; <= 3 operations per history; chunks <= 4 bytes (the writers do not branch on sizes)']


def wr_obl(name, entry, desc, unwind=14, vcall=(), tiers=('quick', 'thorough'), timeout=600):
    return Obl(name, 'wr.cpp', 'noctor:' + entry, unwind=unwind, tiers=tiers, timeout=timeout, desc=desc, vcall=vcall,
               bounds={'operations per history': '<= 3', 'name length': '<= 3 (+suffix)', 'chunk size': '<= 4 bytes (scratch obligation: any 32-bit size)'}, functions=WR_FUNCS)


GZ_VCALL = ('BaseCborOutputWriter=GhostWriter|6WriterI[a-zA-Z0-9_]*D[012]Ev$',)
PROPS['C15'] = {
    'obligations': [wr_obl('wr_named_nofault', 'h_wr_named_nofault', 'named output, history of <= 3 write/rotate operations then destruction, symbolic ofstream buffering: data only to <name><suffix>.part; rename only after close with every handed byte in the file; nothing written after the rename'),
                    wr_obl('wr_named_faults', 'h_wr_named_faults', 'same with I/O faults enabled: the .part / rename discipline is kept on every path')],
    'explanation': 'Crash points are the prefixes of the event trace: the file-system model checks its invariant inside every stub call (the instants at which the process could die): a final name only ever '
                   'appears through a rename whose source was closed and complete. Decided for Writer<std::string> (where .part / rename live); the ordering of the layers above it '
                   '(break -> encoder flush -> compressor trailer -> close) is covered by enc_rotate (C06), gz_close (C14) and the destructor order fixed by member declaration order.',
    'assumptions': WR_ASSUME,
}
PROPS['C16'] = {
    'obligations': [wr_obl('wr_fd_write', 'h_wr_fd_write', 'Writer<int>::write: short count or -1 from ::write => CborOutputException, exactly then'),
                    wr_obl('wr_named_faults16', 'h_wr_named_faults16', 'named output with faults: a rotate_output that closes an output which lost bytes must not return normally'),
                    wr_obl('gz_close_fault', 'h_gz_close_fault', 'gzip output: failure of the inner writer while close() drains the compressor during rotate_output is reported', unwind=8, vcall=GZ_VCALL)],
    'explanation': 'Fault sequences are the nondeterministic outcomes of the ::write / ofstream stubs. Descriptor outputs report; named and compressed outputs swallow failures (known findings).',
    'assumptions': WR_ASSUME,
}
PROPS['C14'] = {
    'obligations': [wr_obl('gz_write', 'h_gz_write', 'GzipCborOutputWriter::write with nondeterministic compressor progress: returns only when all input is consumed; every produced byte forwarded once', unwind=8, vcall=GZ_VCALL),
                    wr_obl('gz_close', 'h_gz_close', 'rotate_output: FINISH until STREAM_END, trailer forwarded, deflateEnd, inner rotate, re-init', unwind=8, vcall=GZ_VCALL),
                    wr_obl('gz_scratch', 'h_gz_scratch', 'write_gzip(n, .) for any 32-bit n: stack scratch bounded by a constant', unwind=8, vcall=GZ_VCALL)],
    'explanation': 'What c-dns implements is the driver of zlib/liblzma; it is executed against a nondeterministic model of the compressor API. The xz driver is line-for-line the same code with lzma_* '
                   '(read; not separately encoded). Real compression and MiB-scale data are outside the claim (the 24 MiB regression for the scratch-buffer fix was run natively once).',
    'assumptions': WR_ASSUME,
}
PROPS['C13'] = {
    'obligations': [wr_obl('wr_rotate_kind', 'h_wr_rotate_kind', 'named output rotated to a descriptor / string literal / name: a call that returns normally has closed+renamed the old output and opened the new one'),
                    wr_obl('wr_rotate_kind_fd', 'h_wr_rotate_kind_fd', 'descriptor output rotated to a name / descriptor: a call that returns normally has closed the old descriptor')] +
                   [o for o in enc_obls('C13') if o.name.startswith('enc_rotate')],
    'explanation': 'Rotation at the writer and encoder layers: everything buffered reaches the old sink before the writer rotates (enc_rotate), and a rotation request that cannot be honoured is not silently ignored. '
                   'The exporter-level part (break, counter reset, header on next block) is decided with the block/exporter harness.',
    'assumptions': WR_ASSUME,
}


# ------------------------------------------------------------------------------------------ C03 (read side safety)
REND_FUNCS = ['get_readable_dname', 'get_readable_ip_address (interface.cpp)']
PROPS['C03'] = {
    'obligations': [Obl('rend_dname', 'rend.cpp', 'noctor:h_rend_dname', unwind=13, desc='get_readable_dname on every string of 0..10 symbolic bytes: no index beyond size(), no oversized construction', bounds={'string length': '0..10'}, functions=REND_FUNCS),
                    Obl('rend_ip', 'rend.cpp', 'noctor:h_rend_ip', unwind=13, desc='get_readable_ip_address on every string of 0..10 bytes (and the 16-byte case by the size()==16 rule): inet_ntop only reads bytes of the string', bounds={'string length': '0..10'}, functions=REND_FUNCS)] +
                   [o for o in dec_obls(('prim', 'string', 'skip')) if any(k in o.name for k in ('unsigned_', 'negative', 'bool_', 'map_start', 'bytestring', 'textstring', 'skip_any', 'skip_depth', 'skip_leaf'))] +
                   [Obl('ts_T2_ub_all', 'ts.cpp', 'T2_ub_all', kind='smt', desc='add_time_offset (reachable from file data in CdnsBlockRead::read): no undefined arithmetic for ANY 64-bit secs/ticks/offset/rate', bounds=TS_B, functions=TS_FUNCS)],
    'explanation': 'Read-side safety is decided on the units that touch untrusted bytes: every decoder primitive from every I_dec state on arbitrary bytes (CBMC pointer/bounds checks inside the real code, '
                   'exception kinds, reserve() requests bounded by a constant or the input size, recursion depth of skip_item bounded by MAX_SKIP_NESTING through the depth contract), the two text-rendering '
                   'kernels on arbitrary strings, and the time-offset arithmetic for all 64-bit values. The schema readers (block/preamble) are covered at token level by the block harness obligations; '
                   'the five command-line tools (process exit status) are outside the encoding.',
    'assumptions': DEC_ASSUME + ['inet_ntop: reads exactly 4/16 bytes at src, writes a NUL-terminated string shorter than size, or fails', 'strlen: loop model'],
}


# ------------------------------------------------------------------------------------------ U4/U5 schema code at item level (L2)
def _mangled(ns_name):
    return '%d%s' % (len(ns_name), ns_name)


BLK_STUBBED = ['Timestamp', 'ResponseProcessingData', 'QueryResponseExtended', 'StorageHints', 'StorageParameters', 'CollectionParameters', 'BlockParameters']
BLK_REDIRECT = tuple(['_ZN4CDNS%s5writeERNS_11CdnsEncoderE=stubw_%s@cdns' % (_mangled(t), t) for t in BLK_STUBBED] +
                     ['_ZN4CDNS%s4readERNS_11CdnsDecoderE=stubr_%s@cdns' % (_mangled(t), t) for t in BLK_STUBBED] +
                     ['_ZN4CDNS9Timestamp15get_time_offsetERKS0_m=stub_get_time_offset@cdns'])
BLK_W = ['filepreamble', 'classtype', 'question', 'rr', 'qrsig', 'mmd', 'rpd', 'qre', 'blockpreamble', 'blockstatistics', 'aec', 'storagehints', 'storageparameters',
         'collectionparameters', 'blockparameters', 'queryresponse', 'malformedmessage', 'timestamp', 'stringitem', 'indexlist']
BLK_R = ['filepreamble', 'classtype', 'question', 'rr', 'qrsig', 'mmd', 'rpd', 'qre', 'blockpreamble', 'blockstatistics', 'aec', 'storagehints', 'storageparameters',
         'collectionparameters', 'blockparameters', 'queryresponse', 'malformedmessage', 'timestamp', 'indexlist']
BLK_PREAMBLE = {'filepreamble', 'storagehints', 'storageparameters', 'collectionparameters', 'blockparameters'}
BLK_FUNCS = ['<X>::write / <X>::read for X in ClassType, Question, RR, QueryResponseSignature, MalformedMessageData, ResponseProcessingData, QueryResponseExtended, BlockPreamble, '
             'BlockStatistics, AddressEventCount, StorageHints, StorageParameters, CollectionParameters, BlockParameters, QueryResponse, MalformedMessage, Timestamp, StringItem, IndexListItem',
             'CdnsDecoder::read_array (cdns_decoder.h)']
BLK_ASSUME = ['CdnsEncoder / CdnsDecoder replaced by the item-level token model with exactly the L1 contract that C06/C07 establish for the real codec (harness/tok_model.h)',
              'nested <Y>::write / <Y>::read calls and Timestamp::get_time_offset replaced by their contract (exactly one tagged item / arbitrary offset with recorded arguments); each nested type has its own obligation',
              'reference schema (RFC 8618 key numbers and value kinds) written out in harness/blk.cpp independently of format_specification.h',
              'list members have concrete lengths 0..2 per run (strings <= 3 bytes); maps in the symbolic-order reader obligations have <= BLK_MAXM members incl. <= 2 unknown ones',
              'compiled with -fno-inline so that nested calls stay calls']


def blk_obl(kind, name, tiers=('quick', 'thorough'), maxm=3, timeout=900, canon=False, form=0):
    d = ['BLK_MAXM=%d' % maxm] + (['BLK_CANON=%d' % int(canon)] if canon else []) + (['BLK_FORM=%d' % form] if canon == 2 else [])
    # map loops: one iteration per member (+ break + exit); list loops: lists hold <= 2 entries
    us = ({r'4readERNS_11CdnsDecoderE': 21, r'10read_arrayE': 4} if canon else {r'4readERNS_11CdnsDecoderE|10read_arrayE': maxm + 2}) if kind == 'r' else ()
    suffix = '' if kind == 'w' else ({1: '_canon', 2: '_directed_f%d' % form}[int(canon)] if canon else '_m%d' % maxm)
    desc = {0: 'read(): reference encoding with members in any order, definite/indefinite, <= 2 unknown members, symbolic cut point: exact value back / CdnsDecoderEnd',
            1: 'read(): every member present, ascending key order, definite/indefinite, symbolic cut point: exact value back / CdnsDecoderEnd',
            2: 'read(): directed run: every member present with symbolic values (full-width integers, symbolic strings/list items), ascending key order, complete item, '
               'length form fixed per obligation (map %s, lists %s): every member comes back in its own member' % (('definite', 'indefinite')[form & 1], ('definite', 'indefinite')[(form >> 1) & 1])}[int(canon)]
    return Obl('%s_%s%s' % (kind, name, suffix), 'blk.cpp', 'noctor:h_%s_%s' % (kind, name), unwind=24, defines=d, tiers=tiers, timeout=timeout,
               redirect=BLK_REDIRECT, opt='-O1 -fno-inline', mem_gb=(30 if timeout > 2000 else 16), unwindset=us, extra=(('--object-bits', '12') if canon == 2 else ()),
               desc=('write(): one well-formed item, returned size == bytes produced, item == RFC 8618 encoding (all presence subsets, full-width integers)' if kind == 'w' else desc),
               bounds={'members per map (reader)': ('all, canonical order' if canon else '<= %d' % maxm), 'strings': '<= 3 bytes', 'lists': '0..2 entries', 'integers': 'full declared width'}, functions=BLK_FUNCS)


BLK_MIN_M = {'storagehints': 4, 'storageparameters': 6, 'aec': 4, 'filepreamble': 4}      # structures with more mandatory members than the default bound
BLK_DIRECTED = {'qrsig', 'queryresponse', 'blockstatistics', 'filepreamble', 'malformedmessage', 'mmd', 'rr', 'aec', 'blockparameters', 'storagehints'}   # directed (all members, canonical order) runs
BLK_BIG = {'qrsig', 'queryresponse', 'blockstatistics'}    # many cases per loop iteration: smaller member bound in the quick tier


def blk_set(kinds, names):
    out = []
    for k in kinds:
        for n in names:
            if k == 'w' and n in BLK_W:
                out.append(blk_obl('w', n))
            if k == 'r' and n in BLK_R:
                if n in BLK_DIRECTED and n not in ('storageparameters', 'collectionparameters'):
                    for form in (0, 3):
                        out.append(blk_obl('r', n, tiers=('quick',), canon=2, form=form, timeout=900))
                if n in ('storageparameters', 'collectionparameters'):
                    # directed: every member present, canonical order, complete item (quick); + symbolic cut (thorough)
                    for form in (0, 3):
                        out.append(blk_obl('r', n, tiers=('quick',), canon=2, form=form, timeout=900))
                    for form in (1, 2):
                        out.append(blk_obl('r', n, tiers=('thorough',), canon=2, form=form, timeout=900))
                if n in ('storageparameters', 'collectionparameters'):
                    # symbolic member orders for these two (12 / 10 members): out of memory at 30 GB (DESIGN.md 9.4) -- not registered
                    pass
                elif n == 'filepreamble':
                    out.append(blk_obl('r', n, tiers=('thorough',), maxm=4, timeout=5400))
                elif n in BLK_BIG:
                    out.append(blk_obl('r', n, tiers=('quick',), maxm=2, timeout=900))
                    out.append(blk_obl('r', n, tiers=('thorough',), maxm=4, timeout=5400))
                else:
                    m = BLK_MIN_M.get(n, 3)
                    out.append(blk_obl('r', n, tiers=('quick',), maxm=m, timeout=900))
                    out.append(blk_obl('r', n, tiers=('thorough',), maxm=m + 2, timeout=5400))
    return out


BLK_BLOCK = [n for n in BLK_W if n not in BLK_PREAMBLE]
PROPS['C02'] = {
    'obligations': blk_set('w', BLK_W),
    'explanation': 'Obl-W: every *::write of the schema code is executed on a symbolic structure (every optional independently present or absent, including structures with no member set and empty lists) '
                   'against the item acceptor: exactly one item, declared length == members present, every key followed by one value. Block level: CdnsBlock::write helpers (w_blocktables, w_block). Document level: the exporter obligations (exp_write_block, exp_rotate, exp_destroy): header exactly once before the first block, one break iff blocks were written.',
    'assumptions': BLK_ASSUME,
}
PROPS['C10'] = {
    'obligations': blk_set('w', BLK_W) + [o for o in enc_obls('C10') if 'bs9' in o.name and ('_u64_' in o.name or '_i64_' in o.name or 'array_start' in o.name or 'bytestring_bs9_len' in o.name)],
    'explanation': 'L1: each encoder operation returns the bytes it appended (C06 harness, second assertion). L2: with the encoder returning an arbitrary positive size per call, every *::write returns exactly the sum '
                   '(a dropped or doubled "written +=" is a counterexample). Exporter-level sums: exp_buffer_*, exp_write_block*, exp_rotate return exactly the bytes handed to the writer.',
    'assumptions': BLK_ASSUME,
}
PROPS['C09'] = {
    'obligations': blk_set('wr', sorted(BLK_PREAMBLE)),
    'explanation': 'Preamble structures: write() == reference encoding and read(reference encoding) == value, member for member including presence and list order. FilePreamble, StorageParameters, CollectionParameters, BlockParameters readers: directed obligations (every member present, ascending keys, all values symbolic, length form per obligation); symbolic member orders for these four are thorough-tier obligations that may end without a verdict (then reported inconclusive, never as success).',
    'assumptions': BLK_ASSUME,
}
PROPS['C08'] = {
    'obligations': blk_set('r', BLK_R),
    'explanation': 'Every map reader is run on the reference encoding of a symbolic value with the members delivered in an arbitrary order (symbolic permutation), in definite or indefinite form, with up to two unknown '
                   'members carrying opaque values, and must return exactly the known members. Byte-level rewrites (head widths, chunked strings) are C07.',
    'assumptions': BLK_ASSUME,
}
PROPS['C01'] = {
    'obligations': blk_set('wr', BLK_BLOCK),
    'explanation': 'Compositional: L1 = C06 + C07 (bytes <-> items), L2 = per structure write() == RFC 8618 reference encoding and read(reference encoding) == value (this check), time offsets: data flow here, arithmetic C17. '
                   'Block-level composition: w_blocktables / w_block (writer side); generic record -> block: C04 obligations (hint_*). CdnsBlockRead (reader side of a whole block) is not encoded.',
    'assumptions': BLK_ASSUME,
}


# ------------------------------------------------------------------------------------------ C20 no shared mutable state
FP_UNITS = [('enc.cpp', ['CDNS_VERIF_ENCODER_BUFFER_SIZE=9']), ('dec.cpp', ['CDNS_VERIF_DECODER_BUFFER_SIZE=2', 'DEC_MAXIN=5']), ('blk.cpp', ['BLK_MAXM=2']),
            ('tbl.cpp', []), ('wr.cpp', []), ('rend.cpp', []), ('ts.cpp', [])]
FP_ALLOWED_EXT = (r'_Z.*|__cxa_.*|__gxx_personality_v0|__verif_.*|nondet_.*|__vs_.*|__clang_call_terminate|'      # C++ runtime, harness API
                  r'inet_ntop|strlen|toupper|rename|write|close|fstat|deflateInit2_|deflate|deflateEnd|lzma_easy_encoder|lzma_code|lzma_end|'   # re-entrant libc / zlib / liblzma calls on caller-owned state
                  r'memcpy|memset|memmove|memcmp|strcmp')


def fp_obl(name, harness, entry, defines=(), unwind=14, unwindset=(), redirect=(), vcall=(), opt='-O1', timeout=900, tiers=('quick', 'thorough')):
    return Obl('fp_' + name, harness, 'noctor:' + entry, unwind=unwind, unwindset=unwindset, defines=defines, redirect=redirect, vcall=vcall, opt=opt, timeout=timeout,
               footprint=True, witness=True, tiers=tiers,
               desc='footprint: every store / memcpy / memset destination reached from this entry point is checked (for all inputs of the harness) not to alias a library-owned mutable global',
               bounds={'as in the functional obligation for the same entry': True}, functions=['all functions reachable from ' + entry])


PROPS['C20'] = {
    'translation_validation': False,
    'obligations': [
        Obl('inventory', 'enc.cpp', 'inventory', kind='inventory', desc='library-owned mutable globals of every unit == {OpCodesDefault, RrTypesDefault} (written only by their dynamic initialisers); every external function called is on the re-entrant allow-list',
            bounds={'units': FP_UNITS, 'allowed_globals': ['_ZN4CDNSL14OpCodesDefaultE', '_ZN4CDNSL14RrTypesDefaultE'], 'allowed_externals_re': FP_ALLOWED_EXT}, functions=['all of U1-U9']),
        fp_obl('enc_bytestring', 'enc.cpp', 'h_enc_bytestring', defines=['CDNS_VERIF_ENCODER_BUFFER_SIZE=9', 'ENC_MAXSTR=11'], unwind=13, unwindset={r'^__v_mem(cpy|move|set)\.': 10, r'CdnsEncoder16write_(byte|text)string': 4}),
        fp_obl('enc_i64', 'enc.cpp', 'h_enc_i64', defines=['CDNS_VERIF_ENCODER_BUFFER_SIZE=9'], unwind=11),
        fp_obl('dec_integer', 'dec.cpp', 'h_dec_integer', defines=['CDNS_VERIF_DECODER_BUFFER_SIZE=2', 'DEC_MAXIN=6'], unwind=8, unwindset={r'read_to_buffer': 3, r'CdnsDecoder\d+(read_|skip_)': 9, r'prim_op|ref_head': 9, r'__v_mem': 17}, redirect=SKIP_REDIRECT),
        fp_obl('dec_skip_any', 'dec.cpp', 'h_dec_skip_any', defines=['CDNS_VERIF_DECODER_BUFFER_SIZE=1', 'DEC_MAXIN=5'], unwind=7, unwindset={r'read_to_buffer': 2, r'ref_head': 9, r'__v_mem': 17, r'skip_item__contract': 4}, redirect=SKIP_REDIRECT, timeout=1500),
        fp_obl('w_queryresponse', 'blk.cpp', 'h_w_queryresponse', defines=['BLK_MAXM=2'], unwind=24, redirect=BLK_REDIRECT, opt='-O1 -fno-inline'),
        fp_obl('w_storageparameters', 'blk.cpp', 'h_w_storageparameters', defines=['BLK_MAXM=2'], unwind=24, redirect=BLK_REDIRECT, opt='-O1 -fno-inline'),
        fp_obl('r_rr', 'blk.cpp', 'h_r_rr', defines=['BLK_MAXM=3'], unwind=24, unwindset={r'4readERNS_11CdnsDecoderE|10read_arrayE': 5}, redirect=BLK_REDIRECT, opt='-O1 -fno-inline'),
        fp_obl('tbl_rr', 'tbl.cpp', 'h_tbl_rr', unwind=8, unwindset=TBL_US),
        fp_obl('wr_named', 'wr.cpp', 'h_wr_named_nofault', unwind=14),
        fp_obl('gz_write', 'wr.cpp', 'h_gz_write', unwind=8, vcall=GZ_VCALL),
        fp_obl('rend_dname', 'rend.cpp', 'h_rend_dname', unwind=13),
        fp_obl('rend_ip', 'rend.cpp', 'h_rend_ip', unwind=13),
    ],
    'explanation': 'C20 is decided through the sufficient condition its statement names - the library keeps no shared mutable state. (i) inventory: the set of library-owned mutable globals and of external functions called is '
                   'recomputed from the IR of every unit on every run and compared with an allow-list; (ii) footprint: for a representative entry point of every unit CBMC decides, for all inputs of the harness, that no store, '
                   'memcpy or memset outside the dynamic initialisers can alias one of these globals. Schedules are NOT solver variables (CBMC 6.11 refuses threads + pointers); the step from "no shared mutable state" to '
                   '"every schedule gives the sequential result" is the data-race-freedom argument, stated as outside the solver verdict.',
    'assumptions': ['thread schedules are not explored; data-race freedom from disjoint footprints is an argument, not a solver verdict', 'zlib / liblzma / libc functions on the allow-list are re-entrant on caller-owned state (their documentation)',
                    'std::cerr use in destructor error paths is outside (iostreams are thread-safe at character level)'],
}


# ------------------------------------------------------------------------------------------ block-level composition (writer side)
BLKW_T = [('ClassType', 'ClassType'), ('QueryResponseSignature', 'QueryResponseSignature'), ('Question', 'Question'), ('RR', 'RR'), ('MalformedMessageData', 'MalformedMessageData'),
          ('StringItem', 'StringItem'), ('IndexListItem', 'IndexListItem'), ('BlockPreamble', 'BlockPreamble'), ('BlockStatistics', 'BlockStatistics'), ('AddressEventCount', 'AddressEventCount')]
BLKW_REDIRECT = tuple(['_ZN4CDNS%s5writeERNS_11CdnsEncoderE=stubw_%s@cdns' % (_mangled(t), s) for t, s in BLKW_T] +
                      ['_ZN4CDNS13QueryResponse5writeERNS_11CdnsEncoderERKNS_9TimestampERKm=stubw_QueryResponse@cdns',
                       '_ZN4CDNS16MalformedMessage5writeERNS_11CdnsEncoderERKNS_9TimestampERKm=stubw_MalformedMessage@cdns'])
BLKW_FUNCS = ['CdnsBlock::write_blocktables', 'CdnsBlock::write']


def blkw_obl(name, entry, extra_redirect=(), timeout=900):
    return Obl(name, 'blkw.cpp', 'noctor:' + entry, unwind=24, unwindset={r'9CdnsBlock(17write_blocktables|5write)E': 4, r'put_table': 3}, timeout=timeout, redirect=BLKW_REDIRECT + tuple(extra_redirect), opt='-O1 -fno-inline', mem_gb=16,
               desc='block-level writer with item writes replaced by their contract: table / array sizes symbolic 0..2, statistics symbolic-present',
               bounds={'entries per table / item array': '0..2 (symbolic)'}, functions=BLKW_FUNCS)


BLKW_OBLS = [blkw_obl('w_blocktables', 'h_w_blocktables'),
             blkw_obl('w_block', 'h_w_block', extra_redirect=('_ZN4CDNS9CdnsBlock17write_blocktablesERNS_11CdnsEncoderERm=stubw_blocktables@cdns',))]
for _p in ('C02', 'C10', 'C01'):
    PROPS[_p]['obligations'] = PROPS[_p]['obligations'] + BLKW_OBLS


# ------------------------------------------------------------------------------------------ U6 exporter at document level
EXP_FUNCS = ['CdnsExporter::buffer_qr/buffer_aec/buffer_mm', 'CdnsExporter::write_block()', 'CdnsExporter::write_block(CdnsBlock&)', 'CdnsExporter::write_file_header', 'CdnsExporter::rotate_output<int>',
             'CdnsExporter::~CdnsExporter', 'CdnsExporter::set_active_block_parameters', 'CdnsBlock::full/clear/set_block_parameters/get_*_count', 'CdnsEncoder::rotate_output<int>']
EXP_ASSUME = ['one step from an arbitrary exporter state satisfying the representation invariant: item arrays below max(1,max_block_items), block counter == blocks in the current output, 1..2 parameter sets '
              '(indices enumerated concretely), max_block_items 0..3, array sizes 0..2',
              'CdnsBlock::write / FilePreamble::write replaced by their contract (one item, positive size: established by C02 Obl-W/C10 for the real functions)',
              'CdnsBlock::add_* replaced by the contract "stores at most one record (none if not storable under the hints) and returns full()"; the real add_* bodies are not encoded (tables + hints: outside the bound)',
              'the writer behind the encoder is a ghost that checks the document state at the moment it is rotated']
EXP_VCALL = ('BaseCborOutputWriter=DocWriter',)


def exp_obl(name, desc):
    return Obl('exp_' + name, 'exp.cpp', 'noctor:h_exp_' + name, unwind=8, timeout=900, vcall=EXP_VCALL, desc=desc,
               bounds={'parameter sets': '1..2', 'max_block_items': '0..3', 'buffered items per array': '0..2', 'blocks already written': '0..5'}, functions=EXP_FUNCS)


EXP_BUF = [exp_obl('buffer_qr', 'buffer_qr from any valid state: flush exactly when an array reaches the maximum, emitted block = buffered + new record, re-armed with the active set, bytes returned == produced'),
           exp_obl('buffer_aec', 'same for buffer_aec'), exp_obl('buffer_mm', 'same for buffer_mm'),
           exp_obl('write_block', 'write_block(): empty blocks are not written, header before the first block, counter, re-arming'),
           exp_obl('write_block_ext', 'write_block(block) with an application-built block'),
           exp_obl('params', 'set_active_block_parameters: accepts exactly existing indices, writes/drops nothing')]
EXP_ROT = [exp_obl('rotate', 'rotate_output(fd, export in {true,false}): old output closed by exactly one BREAK iff it holds blocks (else untouched), writer rotated once afterwards, counter reset, unexported records kept'),
           exp_obl('destroy', 'destructor body: BREAK iff blocks were written; an output without blocks receives nothing')]
PROPS['C12'] = {
    'obligations': EXP_BUF,
    'explanation': 'Inductive step over the exporter: every buffering operation from an arbitrary state satisfying the invariant, compared with the reference behaviour (flush iff an array reaches max(1,max); emitted block = old buffer + new record; '
                   'buffer empty and re-armed with the active set afterwards; counters). Histories of any length follow from the step.',
    'assumptions': EXP_ASSUME,
}
PROPS['C02']['obligations'] = PROPS['C02']['obligations'] + EXP_ROT + [EXP_BUF[3], EXP_BUF[4]]
PROPS['C10']['obligations'] = PROPS['C10']['obligations'] + EXP_ROT[:1] + EXP_BUF[:5]
PROPS['C13']['obligations'] = PROPS['C13']['obligations'] + EXP_ROT + [EXP_BUF[0]]
PROPS['C13']['explanation'] = ('Rotation at three layers: exporter (old output closed by one BREAK or untouched, counter reset, carried-over records kept, next block writes a header with all parameter sets), '
                               'encoder (everything buffered reaches the old sink before the writer rotates) and writers (a rotation request of the wrong kind is refused, not ignored).')


# ---- C04: generic record -> block under symbolic hint masks (harness/hint.cpp, real block.cpp add_* bodies on model containers) -------------------
HINT_FUNCS = ['CDNS::CdnsBlock::add_question_response_record(const GenericQueryResponse&, ...)', 'CDNS::CdnsBlock::add_malformed_message(const GenericMalformedMessage&, ...)',
              'CDNS::CdnsBlock::add_address_event_count(const GenericAddressEventCount&, ...)', 'CDNS::CdnsBlock::add_ip_address / add_qr_signature / add_malformed_message_data / add_question_response_record(const QueryResponse&, ...)',
              'CDNS::BlockTable<T>::add / find / operator[] (model unordered_map/deque)', 'CDNS::hash_value overloads (block_table.h)']


def hint_obl(name, entry, desc, defines=(), tiers=('quick', 'thorough'), timeout=900, mem_gb=16):
    return Obl(name, 'hint.cpp', 'noctor:' + entry, unwind=6, unwindset=TBL_US, defines=list(defines), tiers=tiers, timeout=timeout, mem_gb=mem_gb, desc=desc,
               bounds={'hint masks': 'all 2^32 x 2^32 x 2^8 x 2^8 values (symbolic)', 'records per history': '1 (address events, malformed messages: 2)', 'strings': '<= 2 bytes',
                       'max_block_items': '0..3', 'RR lists / names / class-type of the generic record': 'absent (outside the bound)'}, functions=HINT_FUNCS)


PROPS['C04'] = {
    'obligations': [blk_obl('w', 'storagehints'), blk_obl('r', 'storagehints', tiers=('quick',), canon=2, form=0),
                    hint_obl('hint_aec', 'h_hint_aec', 'add_address_event_count under every other-data hint mask: stored iff the bit is set; nothing reaches the address table otherwise; repeated key', timeout=1500),
                    hint_obl('hint_qr_g1', 'h_hint_qr', 'add_question_response_record, every hint mask, record scalars + client address + time symbolic: member present iff bit set and value given, values kept, address table holds only referenced entries', defines=['HINT_GROUP=1'], timeout=1500),
                    hint_obl('hint_qr_g2a', 'h_hint_qr', 'add_question_response_record, every hint mask, signature members server address/port/transport/type/flags symbolic: signature stored iff its bit is set, member present iff bit set and value given', defines=['HINT_GROUP=21'], timeout=1500),
                    hint_obl('hint_qr_g2b', 'h_hint_qr', 'same for opcode, DNS flags, rcode, qdcount, ancount', defines=['HINT_GROUP=22'], timeout=1500),
                    hint_obl('hint_qr_g2c', 'h_hint_qr', 'same for nscount, arcount, EDNS version, UDP size, response rcode', defines=['HINT_GROUP=23'], timeout=1500),
                    hint_obl('hint_mm', 'h_hint_mm', 'add_malformed_message under every other-data mask: stored iff the bit is set, members/tables exact, earliest time', tiers=('thorough',), timeout=3600, mem_gb=30),
                    ],
    'explanation': 'The real add_* bodies of block.cpp run on real BlockTables (model containers) with all four hint masks fully symbolic. Per obligation a group of record members is symbolic (present/absent and value), the others concretely absent: stored member present <=> hint bit set and value given; value kept; signature stored only if its bit is set; the address table holds exactly the addresses a stored member refers to (a value inserted before its guard is a counterexample); address events stored only under their bit. Preamble states the masks: w_storagehints (C09 unit).',
    'assumptions': ['model containers (stubs/) in place of libstdc++', 'CRC-32C intrinsics: mixing model (hash values are not the subject)'],
    'translation_validation': True,
}


# ---- block-level reader (harness/blkr.cpp): CdnsBlockRead::read and CdnsReader::read_block, nested reads replaced by their contracts ----------------
BLKR_STUBBED = ['BlockPreamble', 'BlockStatistics', 'QueryResponse', 'MalformedMessage', 'AddressEventCount']
BLKR_REDIRECT = tuple(['_ZN4CDNS%s4readERNS_11CdnsDecoderE=stubr_%s@cdns' % (_mangled(t), t) for t in BLKR_STUBBED] +
                      ['_ZN4CDNS13CdnsBlockRead16read_blocktablesERNS_11CdnsDecoderE=stubr_blocktables@cdns',
                       '_ZN4CDNS9Timestamp15add_time_offsetElm=stub_add_time_offset@cdns'])
BLKR_FUNCS = ['CDNS::CdnsBlockRead::read(CdnsDecoder&, std::vector<BlockParameters>&) incl. its three array lambdas', 'CDNS::CdnsReader::read_block(bool&)', 'CDNS::CdnsDecoder::read_array (real)',
              'contracts instead of: BlockPreamble/BlockStatistics/QueryResponse/MalformedMessage/AddressEventCount::read, CdnsBlockRead::read_blocktables, Timestamp::add_time_offset']
BLKR_ASSUME = ['nested read() = "one item of that type; the value is the one that was written" (established per structure by the r_<X> obligations); read_blocktables not encoded (contract: consumes its item)',
               'Timestamp::add_time_offset replaced by a data-flow contract (arithmetic: C17)', 'structure of the offered block concrete per obligation (shape, length forms); values and truncation point symbolic']


def blkr_obl(shape, form, cut, tiers=('quick', 'thorough')):
    what = {0: 'every member + one unknown member, 2 query/responses, 1 malformed message, 1 address event, parameter index 1 of 2', 1: 'preamble only, no parameter index',
            2: 'parameter index 2 with 2 parameter sets in the file'}[shape]
    return Obl('r_block_s%d_f%d%s' % (shape, form, '_cut' if cut else ''), 'blkr.cpp', 'noctor:h_r_block', unwind=24, defines=['BLKR_SHAPE=%d' % shape, 'BLK_FORM=%d' % form, 'BLKR_CUT=%d' % int(cut)],
               tiers=tiers, timeout=900, redirect=BLKR_REDIRECT, opt='-O1 -fno-inline', mem_gb=16, unwindset={r'10read_arrayE': 4, r'13CdnsBlockRead4readE': 10, r'^h_r_block\.': 41}, extra=('--object-bits', '12'),
               desc='CdnsBlockRead::read on a block offered as: %s; map %s, arrays %s; %s' % (what, ('definite', 'indefinite')[form & 1], ('definite', 'indefinite')[(form >> 1) & 1],
                                                                                         'truncated after every number of tokens in turn: CdnsDecoderEnd' if cut else 'complete: members, order, parameter set, time conversion data flow'),
               bounds={'block structure': 'concrete per obligation (shape %d)' % shape, 'records': '<= 2 per kind', 'values': 'symbolic, full width', 'truncation point': 'every token boundary (enumerated)' if cut else 'none'},
               functions=BLKR_FUNCS)


def rdr_obl(offer, cutat=0):
    what = {0: 'a complete minimal block', 1: 'the break closing the blocks array', 2: 'nothing (end of input)', 3: 'a block truncated after %d of its 6 tokens' % cutat}[offer]
    return Obl('reader_block_o%d%s' % (offer, '_c%d' % cutat if offer == 3 else ''), 'blkr.cpp', 'noctor:h_reader_block', unwind=24,
               defines=['BLKR_WITH_READER=1', 'BLKR_OFFER=%d' % offer, 'BLKR_SHAPE=1'] + (['BLKR_CUTAT=%d' % cutat] if offer == 3 else []), timeout=900,
               redirect=BLKR_REDIRECT, opt='-O1 -fno-inline', mem_gb=16, unwindset={r'10read_arrayE': 4, r'13CdnsBlockRead4readE': 10}, extra=('--object-bits', '12'),
               desc='CdnsReader::read_block from an arbitrary reader state (blocks read/count symbolic, definite or indefinite blocks array), offered: %s: eof exactly at the end, '
                    'CdnsDecoderEnd for truncated input, the block counter counts complete blocks only' % what,
               bounds={'reader state': 'symbolic counters, both array forms', 'offered input': what}, functions=BLKR_FUNCS)


def blkr_rev_obl(form):
    o = blkr_obl(0, form, False)
    o.name = 'r_block_s0_f%d_rev' % form
    o.defines = list(o.defines) + ['BLKR_REVERSE=1']
    o.desc = o.desc.replace('CdnsBlockRead::read on a block offered as:', 'CdnsBlockRead::read on a block whose members arrive in DESCENDING key order (unknown member first, block preamble last), offered as:')
    o.bounds = dict(o.bounds, **{'member order': 'descending keys (the ascending order: r_block_s0_f%d)' % form})
    return o


BLKR_REV = [blkr_rev_obl(0)]
BLKR_QUICK = [blkr_obl(0, 0, False), blkr_obl(0, 3, False), blkr_obl(0, 0, True), blkr_obl(0, 3, True), blkr_obl(1, 0, False), blkr_obl(2, 0, False)]
BLKR_READER = [rdr_obl(k) for k in range(3)] + [rdr_obl(3, c) for c in (1, 3, 5)]

_byname = {o.name: o for o in BLKR_QUICK + BLKR_READER}
PROPS['C05']['obligations'] = PROPS['C05']['obligations'] + [_byname[n] for n in ('r_block_s0_f0_cut', 'r_block_s0_f3_cut', 'reader_block_o0', 'reader_block_o1', 'reader_block_o2', 'reader_block_o3_c1', 'reader_block_o3_c3', 'reader_block_o3_c5')]
PROPS['C05']['explanation'] += (' Block / file level (blkr.cpp): CdnsBlockRead::read on a block truncated after every number of tokens in turn propagates CdnsDecoderEnd; CdnsReader::read_block from an arbitrary reader state: '
                                'eof exactly at the closing break / after the declared number of blocks, CdnsDecoderEnd for input ending before or inside a block, the block counter counts complete blocks only. '
                                'Nested item reads are contracts here (their own truncation behaviour: the r_<X> obligations with a symbolic cut).')
PROPS['C05']['assumptions'] = list(PROPS['C05'].get('assumptions', [])) + BLKR_ASSUME
PROPS['C01']['obligations'] = PROPS['C01']['obligations'] + [_byname[n] for n in ('r_block_s0_f0', 'r_block_s0_f3', 'r_block_s1_f0', 'reader_block_o0')]
PROPS['C01']['explanation'] += ' Reader side of a whole block: r_block_* (CdnsBlockRead::read with nested reads as contracts: members, record order, parameter set, time conversion data flow), reader_block_o0 (CdnsReader::read_block).'
PROPS['C08']['obligations'] = PROPS['C08']['obligations'] + [_byname[n] for n in ('r_block_s0_f0', 'r_block_s0_f3')]
PROPS['C08']['obligations'] = PROPS['C08']['obligations'] + BLKR_REV
PROPS['C01']['obligations'] = PROPS['C01']['obligations'] + BLKR_REV
PROPS['C03']['obligations'] = PROPS['C03']['obligations'] + [_byname[n] for n in ('r_block_s2_f0', 'r_block_s0_f0_cut', 'r_block_s0_f0', 'r_block_s0_f3')]


# ---- file-level reader (harness/hdr.cpp): CdnsReader::CdnsReader / read_file_header, FilePreamble::read replaced by its contract ----------------
HDR_REDIRECT = ('_ZN4CDNS12FilePreamble4readERNS_11CdnsDecoderE=stubr_FilePreamble@cdns',)
HDR_FUNCS = ['CDNS::CdnsReader::CdnsReader(std::istream&)', 'CDNS::CdnsReader::read_file_header()', 'std::transform(..., toupper) (model <algorithm>)',
             'contract instead of: FilePreamble::read (r_filepreamble_* obligations)']
HDR_ASSUME = ['FilePreamble::read = "one map item; the value is the one that was written" (r_filepreamble_*)',
              'decoder = item-level model with the L1 contract of C07; toupper() = C standard 7.4 contract (argument representable as unsigned char or EOF)',
              'the four header items are offered at constant positions, every attribute symbolic (kind, declared length, length form, string length 0..6 and bytes), truncation point symbolic']
HDR_OBL = Obl('reader_header', 'hdr.cpp', 'noctor:h_reader_header', unwind=30, timeout=900, redirect=HDR_REDIRECT, opt='-O1 -fno-inline', mem_gb=16, extra=('--object-bits', '12'),
              desc='CdnsReader constructor / read_file_header on four arbitrary items (any kind, any declared length, either length form, any type-id bytes incl. >= 0x80) truncated at any point: '
                   'accepted iff well formed (file array and blocks array definite or indefinite), CdnsDecoderEnd iff the input ends first, otherwise CdnsDecoderException; '
                   'toupper() precondition; preamble, blocks-array form and count stored for read_block()',
              bounds={'header items': '4, every attribute symbolic', 'type-id string': '0..6 symbolic bytes', 'truncation point': '0..4 (symbolic)'}, functions=HDR_FUNCS)
for _p in ('C03', 'C05', 'C08', 'C09'):
    PROPS[_p]['obligations'] = PROPS[_p]['obligations'] + [HDR_OBL]
    PROPS[_p]['assumptions'] = list(PROPS[_p].get('assumptions', [])) + HDR_ASSUME


# ---- C19 at block level (harness/cpy.cpp): the copy/move operations CdnsBlockRead adds on top of CdnsBlock, CdnsBlock::operator= as a contract ----------------
CPY_REDIRECT = ('_ZN4CDNS9CdnsBlockaSERS0_=stub_block_assign@cdns',)
CPY_FUNCS = ['CDNS::CdnsBlockRead::CdnsBlockRead(CdnsBlockRead&) / (CdnsBlockRead&&) / operator=(CdnsBlockRead&) / operator=(CdnsBlockRead&&)', 'CDNS::CdnsBlock::CdnsBlock(CdnsBlock&) / (CdnsBlock&&) when reached',
             'contract instead of: CdnsBlock::operator=(CdnsBlock&) (member-wise copy; tables: copy_tbl_ctor / copy_tbl_assign)']
CPY_OBL = Obl('copy_blockread', 'cpy.cpp', 'noctor:h_copy_blockread', unwind=6, timeout=900, mem_gb=16, redirect=CPY_REDIRECT, opt='-O1 -fno-inline', extra=('--object-bits', '12'),
              desc='CdnsBlockRead obtained by copy construction, move construction, copy assignment or move assignment (symbolic choice) from a partly read block (cursors anywhere, 0..2 address events): '
                   'the base part is copied exactly once from the source; the cursors of the copy are reset to the start of its own containers',
              bounds={'operation': 'copy/move construction, copy/move assignment (symbolic)', 'address events': '0..2 (symbolic)', 'cursors of source and target': 'any value',
                      'CdnsBlock::operator=': 'contract (member-wise copy)'}, functions=CPY_FUNCS)
PROPS['C19']['obligations'] = PROPS['C19']['obligations'] + [CPY_OBL]
PROPS['C19']['explanation'] += (' Block level (cpy.cpp): the four copy/move operations of CdnsBlockRead are executed with CdnsBlock::operator= replaced by its contract; decided: the base part is copied exactly once, '
                                'the read cursors of the copy are reset to the copy\'s own containers whatever the cursors of the source were.')
PROPS['C19']['assumptions'] = list(PROPS['C19'].get('assumptions', [])) + ['CdnsBlock::operator=(CdnsBlock&) replaced by the contract "member-wise copy" in copy_blockread (tables: copy_tbl_*; the whole-block copy itself is outside the bound)']


# ---- generic section lists (harness/hint.cpp h_generic_lists): add_generic_rrlist / add_generic_qlist ----------------
GLIST_FUNCS = ['CDNS::CdnsBlock::add_generic_rrlist', 'CDNS::CdnsBlock::add_generic_qlist', 'CDNS::CdnsBlock::add_name_rdata/add_classtype/add_rr/add_question/add_rr_list/add_question_list', 'BlockTable<T>::add / find']


def glist_obl(name, defines, tiers, what, timeout=1500, mem_gb=20):
    return Obl(name, 'hint.cpp', 'noctor:h_generic_lists', unwind=6, unwindset=TBL_US, timeout=timeout, mem_gb=mem_gb, defines=defines, tiers=tiers,
               desc='add_generic_rrlist / add_generic_qlist on a list of two records under every RR hint mask (%s): the returned list index and every index in the stored list are valid; '
                    'each stored RR / question denotes exactly the record it was built from (TTL / RDATA present iff hinted and supplied by that record, nothing inherited from the previous one)' % what,
               bounds={'records per list': 2, 'strings': '<= 2 bytes', 'RR hint mask': 'all 2^8 values (symbolic)', 'block tables': 'empty before the call', 'record values': what}, functions=GLIST_FUNCS)


GLIST_OBLS = [glist_obl('generic_lists_rr_ttl', ['GLIST_RR=1', 'GLIST_CONCRETE=3'], ('thorough',), 'RR list; both records with the same concrete name and class/type, no RDATA; presence of TTL per record, TTL values and the hint mask symbolic', timeout=1200),
              glist_obl('generic_lists_rr_distinct', ['GLIST_RR=1', 'GLIST_CONCRETE=1'], ('thorough',), 'RR list; names, class/types, RDATA bytes concrete and distinct; presence of TTL/RDATA per record and TTL values symbolic'),
              glist_obl('generic_lists_rr_equal', ['GLIST_RR=1', 'GLIST_CONCRETE=2'], ('thorough',), 'RR list; both records with the same name and class/type (de-duplicated table entries); presence of TTL/RDATA per record and TTL values symbolic'),
              glist_obl('generic_lists_q', ['GLIST_RR=0', 'GLIST_CONCRETE=1'], ('thorough',), 'question list; names and class/types concrete and distinct'),
              glist_obl('generic_lists_symbolic', [], ('thorough',), 'RR or question list (symbolic choice), every member of both records symbolic; may end without a verdict (20 GB exhausted after 828 s in round 2): reported inconclusive', timeout=3000, mem_gb=30)]
# quick tier of C11 only (measured on a loaded machine: rr_ttl 719 s, q about 600 s); C01 / C04 run all of them in their thorough tier
GLIST_QUICK_C11 = [glist_obl('generic_lists_rr_ttl', ['GLIST_RR=1', 'GLIST_CONCRETE=3'], ('quick', 'thorough'), 'RR list; both records with the same concrete name and class/type, no RDATA; presence of TTL per record, TTL values and the hint mask symbolic', timeout=1500),
                   glist_obl('generic_lists_q', ['GLIST_RR=0', 'GLIST_CONCRETE=1'], ('quick', 'thorough'), 'question list; names and class/types concrete and distinct', timeout=1500)]
PROPS['C11']['obligations'] = PROPS['C11']['obligations'] + GLIST_QUICK_C11 + [o_ for o_ in GLIST_OBLS if o_.name not in ('generic_lists_rr_ttl', 'generic_lists_q')]
for _p in ('C01', 'C04'):
    PROPS[_p]['obligations'] = PROPS[_p]['obligations'] + GLIST_OBLS
for _p in ('C11', 'C01', 'C04'):
    PROPS[_p]['assumptions'] = list(PROPS[_p].get('assumptions', [])) + ['generic_lists_*: model containers (stubs/), lists of two records, tables empty before the call; quick tier: names / class-types / RDATA bytes concrete, presence and TTL values and hint mask symbolic']
