"""obligations.py -- the obligations (harness entry + bounds) that decide each property.
See DESIGN.md section 4 for the reasoning behind each one."""
from tools.vcheck import Obl

PROPS = {}


def run_special(build, ob, tier, replay_dir, prop, sh, VERIF, REPO):
    import special
    return special.run(build, ob, tier, replay_dir, prop, sh, VERIF, REPO)


# ------------------------------------------------------------------------------------------ U1 encoder
ENC_FUNCS = ['CdnsEncoder::write_int', 'CdnsEncoder::write_array_start', 'CdnsEncoder::write_indef_array_start',
             'CdnsEncoder::write_map_start', 'CdnsEncoder::write_indef_map_start', 'CdnsEncoder::write_bytestring',
             'CdnsEncoder::write_textstring', 'CdnsEncoder::write_break', 'CdnsEncoder::write(bool/u8/u16/u32/u64/i8/i16/i32/i64)',
             'CdnsEncoder::flush_buffer', 'CdnsEncoder::write_string', 'CdnsEncoder::update_buffer', 'CdnsEncoder::rotate_output<T>']


def enc_obls(prop):
    o = []
    heads = ['array_start', 'indef_array', 'map_start', 'indef_map', 'break_', 'bool_', 'u8', 'u16', 'u32', 'u64', 'i8', 'i16', 'i32', 'i64']
    for bs, tiers in ((9, ('quick', 'thorough')), (16, ('thorough',)), (33, ('thorough',))):
        d = ['CDNS_VERIF_ENCODER_BUFFER_SIZE=%d' % bs]
        for h in heads:
            o.append(Obl('enc_%s_bs%d' % (h, bs), 'enc.cpp', 'h_enc_' + h, unwind=bs + 2, defines=d, tiers=tiers,
                         desc='one call of the operation from any I_enc state (symbolic fill level 0..BS, symbolic buffer contents, symbolic 64-bit argument): '
                              'output stream == old stream ++ RFC 8949 preferred encoding, return value == its length, at most one flush',
                         bounds={'BUFFER_SIZE': bs, 'argument': 'all values of the type', 'fill': '0..%d' % bs}, functions=ENC_FUNCS))
        for h in ('bytestring', 'textstring'):
            o.append(Obl('enc_%s_bs%d' % (h, bs), 'enc.cpp', 'h_enc_' + h, unwind=3 * bs + 4, defines=d, tiers=tiers, timeout=1500,
                         unwindset={r'^__v_mem(cpy|move|set)\.': bs + 1, r'CdnsEncoder16write_(byte|text)string': 5},
                         desc='string of symbolic length 0..3*BS+2 with symbolic bytes from any I_enc state: head + payload appended in order across flushes',
                         bounds={'BUFFER_SIZE': bs, 'string length': '0..%d' % (3 * bs + 2)}, functions=ENC_FUNCS))
        for h in ('bytestring_std', 'textstring_std', 'nullstring', 'rotate'):
            o.append(Obl('enc_%s_bs%d' % (h, bs), 'enc.cpp', 'h_enc_' + h, unwind=max(bs, 8) + 3, defines=d, tiers=tiers,
                         desc={'nullstring': 'nullptr string: nothing written, returns 0', 'rotate': 'rotate_output<int|string>: all buffered bytes reach the old sink before the writer rotates'}.get(h, 'std::string overload forwards data()/size() unchanged'),
                         bounds={'BUFFER_SIZE': bs, 'std::string length': '0..8 (model capacity)'}, functions=ENC_FUNCS))
    return o


PROPS['C06'] = {
    'obligations': enc_obls('C06'),
    'explanation': 'Inductive step over the encoder: each of the 18 public write operations and rotate_output is executed symbolically once from an '
                   'arbitrary state satisfying I_enc (m_buffer <= m_p, fill + m_avail == BUFFER_SIZE; fill level, buffer bytes, argument all symbolic) '
                   'and compared with a reference RFC 8949 encoder through a lazy oracle (one symbolic position in the old data, one in the new). '
                   'Because the abstract output stream (sink ++ buffer) is extended by exactly the reference bytes in every step, call sequences of any '
                   'length produce the concatenation. Verdicts are for the hooked BUFFER_SIZE values; 2048 is outside the solver bound '
                   '(the code uses BUFFER_SIZE only as array bound and in flush_buffer).',
    'assumptions': ['encoder window hooked to BUFFER_SIZE in {9,16,33} (CDNS_VERIF_ENCODER_BUFFER_SIZE); the real 2048 is covered by parametricity, not by the solver',
                    'the sink (BaseCborOutputWriter) is a ghost accumulator: write() appends, never throws (failures: C16)',
                    'write_bytestring/textstring head thresholds: strings >= 64 KiB (3-byte heads and wider) are outside the string-length bound; the same threshold code is exercised with 64-bit sizes through write_array_start/write_map_start'],
}
